//go:build verif

package shmipc

import (
	"runtime"
	"runtime/debug"
	"encoding/binary"
	"encoding/json"
	"fmt"
	"io"
	"net"
	"os"
	"os/exec"
	"sort"
	"strings"
	"testing"
	"time"

	syscall "golang.org/x/sys/unix"

	"github.com/cloudwego/shmipc-go/internal/vrt"
)

// C13 — nothing received on the control connection can crash the process.
//
// Established phase (in-process, sequential): a session of each publicly reachable kind (client owned by a
// SessionManager, server owned by a Listener, server made by Server()) whose event connection is the REAL
// connEventHandler on one end of a socketpair. The harness writes a byte string in chunks to the other end and
// calls the real onReadReady after each chunk (exactly what the epoll loop does), then runs the posted lambdas.
// Enumerated: every single event of the grammar (type x version x magic x length field x payload), all pairs and
// triples of a reduced event set, and every splitting of the byte string with <= 1 (quick) / <= 2 (thorough)
// cut points. Oracles: no panic anywhere (handlers and lambdas run on the harness goroutine under recover);
// a header with bad magic / version 0 / unknown type closes the session with an error; the observable effect
// of a byte string is the same for every splitting.
//
// Handshake phase (child processes, because initProtocol runs on its own goroutine where a panic kills the
// process): the real newSession (server role, and client role with a memfd mapping) against a scripted raw peer
// that plays every event of the handshake grammar; oracle: newSession returns (nil or error), no crash.

type c13Ev struct {
	Type    uint8  `json:"type"`
	Version uint8  `json:"version"`
	BadMag  bool   `json:"bad_magic"`
	Len     int64  `json:"len"` // value of the length field; -1 = exact
	Payload []byte `json:"payload"`
}

func (e c13Ev) bytes() []byte {
	b := make([]byte, headerSize+len(e.Payload))
	l := uint32(len(b))
	if e.Len >= 0 {
		l = uint32(e.Len)
	}
	binary.BigEndian.PutUint32(b[0:4], l)
	m := magicNumber
	if e.BadMag {
		m = 0x1234
	}
	binary.BigEndian.PutUint16(b[4:6], m)
	b[6] = e.Version
	b[7] = e.Type
	copy(b[headerSize:], e.Payload)
	return b
}

func (e c13Ev) String() string {
	return fmt.Sprintf("{t%d v%d badmagic=%v len=%d payload=%x}", e.Type, e.Version, e.BadMag, e.Len, e.Payload)
}

type c13Case struct {
	Kind   string  `json:"kind"` // client-manager | server-listener | server-plain
	Events []c13Ev `json:"events"`
	Cuts   []int   `json:"cuts"`
}

type c13Callbacks struct{ newStreams int }

func (c *c13Callbacks) OnNewStream(s *Stream)   { c.newStreams++ }
func (c *c13Callbacks) OnShutdown(reason string) {}

type c13World struct {
	kind     string
	sess     *Session
	conn     *connEventHandler
	disp     *epollDispatcher
	peerFd   int
	stream   *Stream
	cb       *c13Callbacks
	lst      *Listener
	sm       *SessionManager
	pipeA    net.Conn
	pipeB    net.Conn
	bm       *bufferManager
	peerQ    *queue
	preload  uint32
}

func u32(v uint32) []byte {
	b := make([]byte, 4)
	binary.BigEndian.PutUint32(b, v)
	return b
}

func u64(v uint64) []byte {
	b := make([]byte, 8)
	binary.BigEndian.PutUint64(b, v)
	return b
}

func newC13World(kind string) *c13World {
	debugMode = true
	SetLogLevel(levelNoPrint)
	w := &c13World{kind: kind, cb: &c13Callbacks{}}
	fds, err := syscall.Socketpair(syscall.AF_UNIX, syscall.SOCK_STREAM, 0)
	if err != nil {
		panic(err)
	}
	w.peerFd = fds[1]
	syscall.SetNonblock(fds[0], true)
	w.disp = newEpollDispatcher()
	w.disp.epollFd, _ = syscall.EpollCreate1(0)
	file := os.NewFile(uintptr(fds[0]), "c13")
	w.conn = w.disp.newConnection(file).(*connEventHandler)
	syscall.SetNonblock(w.conn.fd, true)
	mem := make([]byte, 8+36+8*(16+bufferHeaderSize))
	w.bm, err = createBufferManager([]*SizePercentPair{{Size: 16, Percent: 100}}, "", mem, 0)
	if err != nil {
		panic(err)
	}
	const qcap = 8
	qmem := make([]byte, countQueueMemSize(qcap)*queueCount)
	half := len(qmem) / 2
	recvQ := createQueueFromBytes(qmem[half:], qcap)
	w.peerQ = mappingQueueFromBytes(qmem[half:]) // the peer's send queue = our receive queue
	qm := &queueManager{sendQueue: createQueueFromBytes(qmem[:half], qcap), recvQueue: recvQ}
	w.pipeA, w.pipeB = net.Pipe()
	client := kind == "client-manager"
	cfg := DefaultConfig()
	s := &Session{
		config: cfg, logger: newLogger("s", io.Discard), streams: map[uint32]*Stream{},
		sendCh: make(chan sendReady, 16), notifyContinueWriteCh: make(chan struct{}, 1), shutdownCh: make(chan struct{}),
		isClient: client, communicationVersion: protoVersion, eventConn: w.conn, dispatcher: w.disp,
		queueManager: qm, bufferManager: w.bm, netConn: w.pipeA, handshakeDone: true,
	}
	w.sess = s
	w.conn.callback = s
	switch kind {
	case "client-manager":
		s.nextStreamID = 1
		smc := DefaultSessionManagerConfig()
		smc.Network, smc.Address = "unix", "/nonexistent/verif-c13.sock"
		smc.ConnectionWriteTimeout = 50 * time.Millisecond
		p := newStreamPool(4)
		p.session.Store(s)
		w.sm = &SessionManager{config: smc, pools: []*streamPool{p}}
		s.manager = w.sm
		w.stream, _ = s.OpenStream()
	case "server-listener":
		s.nextStreamID = 2
		s.acceptCh = make(chan *Stream, 16)
		lc := &ListenerConfig{Config: cfg, Network: "unix", ListenPath: "/nonexistent"}
		w.lst = &Listener{config: lc, sessions: newSessions(), logger: newLogger("l", io.Discard), callback: w.cb, epoch: 7, state: hotRestartState, hotRestartAckCount: 1}
		c2 := *cfg
		c2.listenCallback = &sessionCallback{w.lst}
		s.config = &c2
		s.listener = w.lst
		s.state = hotRestartState
		w.lst.sessions.add(s)
	case "server-plain":
		s.nextStreamID = 2
		s.acceptCh = make(chan *Stream, 16)
	}
	// the peer has one message in flight through shared memory for stream 3 (known on nobody: a server accepts it,
	// a client recycles it) so that a polling event has an observable effect
	if sl, err := w.bm.allocShmBuffer(5); err == nil {
		sl.append([]byte("hello")...)
		sl.update()
		w.preload = sl.offsetInShm
		w.peerQ.put(queueElement{seqID: 3, offsetInShmBuf: sl.offsetInShm, status: uint32(streamOpened)})
		putBackBufferSlice(sl)
	}
	go s.send()
	return w
}

func (w *c13World) close() {
	if !w.sess.IsClosed() {
		w.sess.Close()
	}
	w.disp.runLambda()
	w.disp.runLambda()
	syscall.Close(w.peerFd)
	if w.conn.file != nil {
		w.conn.file.Close()
	}
	syscall.Close(w.disp.epollFd)
	w.pipeA.Close()
	w.pipeB.Close()
}

// feed writes one chunk to the peer end and lets the real read path run, as the event loop would.
func (w *c13World) feed(chunk []byte) {
	for len(chunk) > 0 {
		n, err := syscall.Write(w.peerFd, chunk)
		if err == syscall.EPIPE || err == syscall.ECONNRESET {
			return // the session under test has closed the connection (after an invalid event): the rest cannot be delivered
		}
		if err != nil {
			panic("c13 harness: socket write: " + err.Error())
		}
		chunk = chunk[n:]
	}
	func() {
		w.disp.lock.Lock()
		defer w.disp.lock.Unlock() // a panicking handler must not poison the dispatcher lock of the harness
		if atomicLoadClose(w.conn) == 0 {
			w.conn.onReadReady()
		}
	}()
	w.disp.runLambda()
}

func atomicLoadClose(c *connEventHandler) uint32 { return c.isClose }

func (w *c13World) effect() string {
	var sb strings.Builder
	s := w.sess
	fmt.Fprintf(&sb, "closed=%v err=%v ", s.IsClosed(), s.shutdownErr)
	var ids []int
	s.streamLock.Lock()
	streams := s.streams
	s.streamLock.Unlock()
	for id := range streams {
		ids = append(ids, int(id))
	}
	sort.Ints(ids)
	for _, id := range ids {
		st := streams[uint32(id)]
		st.pendingData.moveTo(st.recvBuf)
		var data []byte
		for sl := st.recvBuf.sliceList.front(); sl != nil; sl = sl.nextSlice {
			data = append(data, sl.data[sl.readIndex:sl.writeIndex]...)
		}
		fmt.Fprintf(&sb, "stream%d{state=%d len=%d data=%x fb=%v} ", id, st.state, st.recvBuf.Len(), data, st.inFallbackState)
	}
	fmt.Fprintf(&sb, "new=%d accept=%d rq=%d poll=%d fbread=%d ", w.cb.newStreams, len(s.acceptCh), w.peerQ.size(), s.stats.recvPollingEventCount, s.stats.fallbackReadCount)
	if w.lst != nil {
		fmt.Fprintf(&sb, "lst{ack=%d state=%d} sstate=%d ", w.lst.hotRestartAckCount, w.lst.state, s.state)
	}
	if w.sm != nil {
		w.sm.RLock()
		fmt.Fprintf(&sb, "sm{epoch=%d reserve=%d} ", w.sm.epoch, len(w.sm.reservePools)) // state changes on a 2 s timer: not an effect of the bytes
		w.sm.RUnlock()
	}
	inuse := 0
	for _, l := range w.bm.lists {
		inuse += int(*l.cap) - int(*l.size)
	}
	fmt.Fprintf(&sb, "inuse=%d", inuse)
	return sb.String()
}

// c13RunCase delivers the events' bytes cut at the given positions; returns the effect or a panic description.
// Only the code under test runs under recover: a panic of the harness itself must not be blamed on it.
func c13RunCase(c c13Case) (effect string, pan string) {
	w := newC13World(c.Kind)
	var all []byte
	for _, e := range c.Events {
		all = append(all, e.bytes()...)
	}
	func() {
		defer func() {
			if r := recover(); r != nil {
				pan = fmt.Sprintf("panic: %v at %s", r, c13Where())
				if os.Getenv("VERIF_TRACE") != "" {
					fmt.Println(string(debug.Stack()))
				}
			}
		}()
		prev := 0
		for _, cut := range append(append([]int{}, c.Cuts...), len(all)) {
			if cut > prev {
				w.feed(all[prev:cut])
				prev = cut
			}
		}
	}()
	if pan == "" {
		effect = w.effect()
	}
	func() {
		defer func() { recover() }() // tearing down a world whose handler panicked half-way may fail; ignored
		w.close()
	}()
	return effect, pan
}

// c13Where names the innermost frames of package code on the panicking stack (called from the deferred recover).
func c13Where() string {
	pcs := make([]uintptr, 40)
	n := runtime.Callers(3, pcs)
	fr := runtime.CallersFrames(pcs[:n])
	var out []string
	for {
		f, more := fr.Next()
		if strings.Contains(f.Function, "shmipc-go.") && !strings.Contains(f.Function, "c13") && !strings.Contains(f.File, "zz_verif") {
			fn := f.Function[strings.LastIndex(f.Function, "/")+1:]
			out = append(out, fmt.Sprintf("%s:%d", strings.TrimPrefix(fn, "shmipc-go."), f.Line))
			if len(out) >= 4 {
				break
			}
		}
		if !more {
			break
		}
	}
	return strings.Join(out, " < ")
}

// mustClose: the first complete header is invalid => the session has to end with an error.
func c13MustClose(evs []c13Ev) bool {
	e := evs[0]
	return e.BadMag || e.Version == 0 || e.Type > uint8(maxEventType)
}

func c13Grammar() []c13Ev {
	var out []c13Ev
	payloads := [][]byte{nil, u32(2), u32(3), append(u32(3), u32(uint32(streamOpened))...), append(append(u32(2), u32(uint32(streamOpened))...), []byte("data!")...),
		append(u32(3), u32(uint32(streamClosed))...), u64(7), u64(9), {1, 2, 3}}
	for _, typ := range []uint8{0, 1, 2, 3, 4, 5, 6, 7, 8, 9, 10, 255} {
		for _, ver := range []uint8{0, 2, 3, 4} {
			for _, bad := range []bool{false, true} {
				for _, pl := range payloads {
					for _, l := range []int64{-1, 0, 4, 7, 8, 9, 11, 12, 15, 16, 17, int64(headerSize+len(pl)) + 1, 1 << 31, 1<<32 - 1} {
						out = append(out, c13Ev{Type: typ, Version: ver, BadMag: bad, Len: l, Payload: pl})
					}
				}
			}
		}
	}
	return out
}

// c13Reduced: well-formed events of every handled type plus a few malformed ones, for sequences.
func c13Reduced() []c13Ev {
	v := protoVersion
	return []c13Ev{
		{Type: uint8(typePolling), Version: v, Len: -1},
		{Type: uint8(typeStreamClose), Version: v, Len: -1, Payload: u32(2)},
		{Type: uint8(typeStreamClose), Version: v, Len: -1, Payload: u32(99)},
		{Type: uint8(typeFallbackData), Version: v, Len: -1, Payload: append(append(u32(2), u32(uint32(streamOpened))...), []byte("fallback-bytes")...)},
		{Type: uint8(typeFallbackData), Version: v, Len: -1, Payload: append(u32(5), u32(uint32(streamOpened))...)},
		{Type: uint8(typeFallbackData), Version: v, Len: -1, Payload: append(u32(2), u32(uint32(streamClosed))...)},
		{Type: uint8(typeHotRestart), Version: v, Len: -1, Payload: u64(7)},
		{Type: uint8(typeHotRestartAck), Version: v, Len: -1, Payload: u64(7)},
		{Type: uint8(typeHotRestartAck), Version: v, Len: -1, Payload: u64(8)},
		{Type: uint8(typeFallbackData), Version: v, Len: 12, Payload: u32(2)},
		{Type: uint8(typePolling), Version: v, BadMag: true, Len: -1},
		{Type: uint8(typeExchangeProtoVersion), Version: 3, Len: -1},
		{Type: 10, Version: v, Len: -1},
	}
}

func c13Sig(v string) string {
	switch {
	case strings.Contains(v, "handleFallbackData") && strings.Contains(v, "panic"):
		return "known:fallback-short-length"
	case (strings.Contains(v, "handleHotRestart") || strings.Contains(v, "handleSessionManagerHotRestart")) && strings.Contains(v, "panic"):
		return "known:hotrestart-nil-owner"
	case strings.Contains(v, "panic"):
		return "panic"
	case strings.Contains(v, "splitting"):
		return "split-dependent"
	}
	return "not-closed"
}

type c13Stats struct {
	cases, strings, cutsTried int64
	effects                   map[string]bool
	closedCases               int64
}

// c13Check runs one byte string under all its splittings. Returns "" or the violation with the failing case.
// c13CutFilter, when set, restricts the single-cut splittings that c13Check tries (large event strings: every cut
// position of a 90 KB string would be 90 000 cases per string; classes of positions are enough there).
var c13CutFilter func(pos, total int) bool

func c13Check(st *c13Stats, kind string, evs []c13Ev, maxCuts int) (string, *c13Case) {
	total := 0
	for _, e := range evs {
		total += len(e.bytes())
	}
	base := c13Case{Kind: kind, Events: evs}
	st.strings++
	ref, pan := c13RunCase(base)
	st.cases++
	desc := func(c c13Case) string {
		names := ""
		for _, e := range c.Events {
			names += eventType(e.Type).String() + "(type" + fmt.Sprint(e.Type) + ") "
		}
		return fmt.Sprintf("session %s, events %s%v cuts %v", c.Kind, names, c.Events, c.Cuts)
	}
	if pan != "" {
		return desc(base) + ": " + pan, &base
	}
	st.effects[ref] = true
	if c13MustClose(evs) && !strings.HasPrefix(ref, "closed=true err=invalid") {
		return desc(base) + ": invalid header did not end the session with an error: " + ref, &base
	}
	if strings.HasPrefix(ref, "closed=true") {
		st.closedCases++
	}
	try := func(cuts []int) (string, *c13Case) {
		c := c13Case{Kind: kind, Events: evs, Cuts: cuts}
		st.cases++
		st.cutsTried++
		eff, pan := c13RunCase(c)
		if pan != "" {
			return desc(c) + ": " + pan, &c
		}
		if eff != ref {
			return desc(c) + ": effect depends on the splitting:\n  unsplit: " + ref + "\n  split:   " + eff, &c
		}
		return "", nil
	}
	if maxCuts >= 1 {
		for a := 1; a < total; a++ {
			if c13CutFilter != nil && !c13CutFilter(a, total) {
				continue
			}
			if v, c := try([]int{a}); v != "" {
				return v, c
			}
		}
	}
	if maxCuts >= 2 {
		for a := 1; a < total; a++ {
			for b := a + 1; b < total; b++ {
				if v, c := try([]int{a, b}); v != "" {
					return v, c
				}
			}
		}
	}
	return "", nil
}

// ---- handshake phase (runs in child processes) ----------------------------------------------------

type c13HsCase struct {
	Role   string  `json:"role"` // server | client-memfd
	Script []c13Ev `json:"script"`
	Raw    []byte  `json:"raw,omitempty"`
	// RealFiles: the payload of the last event of the script is replaced by the paths of a real queue file and a real
	// buffer file created for the case, so that the handshake can SUCCEED with whatever versions the script announced
	RealFiles bool `json:"real_files,omitempty"`
}

func c13HsCases(thorough bool) []c13HsCase {
	var out []c13HsCase
	paths := func(q, b string, ql, bl int) []byte {
		p := make([]byte, 0, 8+len(q)+len(b))
		x := make([]byte, 2)
		binary.BigEndian.PutUint16(x, uint16(ql))
		p = append(p, x...)
		p = append(p, q...)
		binary.BigEndian.PutUint16(x, uint16(bl))
		p = append(p, x...)
		p = append(p, b...)
		return p
	}
	good := paths("/nonexistent/q", "/nonexistent/b", 14, 14)
	bodies := [][]byte{nil, {0}, {0, 0}, {0, 5}, {0, 0, 0}, {0, 0, 0, 0}, {0, 2, 'a', 'b'}, {0, 2, 'a', 'b', 0}, {0, 2, 'a', 'b', 0, 9, 'x'}, {0xff, 0xff, 'a'}, good, good[:len(good)-3], paths("/nonexistent/q", "/nonexistent/b", 14, 200)}
	lens := []int64{-1, 0, 4, 7, 8, 9, 10, 11, 12, 13, 1 << 20}
	// server role: first event of every type/version, then metadata events with every body/length
	for _, typ := range []uint8{0, 1, 2, 3, 4, 5, 6, 7, 8, 9, 10, 255} {
		for _, ver := range []uint8{0, 1, 2, 3, 4, 255} {
			out = append(out, c13HsCase{Role: "server", Script: []c13Ev{{Type: typ, Version: ver, Len: -1}}})
			out = append(out, c13HsCase{Role: "server", Script: []c13Ev{{Type: typ, Version: ver, Len: -1, BadMag: true}}})
		}
	}
	for _, body := range bodies {
		for _, l := range lens {
			// protocol v2: metadata by file path is the first event
			out = append(out, c13HsCase{Role: "server", Script: []c13Ev{{Type: uint8(typeShareMemoryByFilePath), Version: 2, Len: l, Payload: body}}})
			// protocol v3: version exchange, then metadata by path / by memfd
			out = append(out, c13HsCase{Role: "server", Script: []c13Ev{{Type: uint8(typeExchangeProtoVersion), Version: 3, Len: -1}, {Type: uint8(typeShareMemoryByFilePath), Version: 3, Len: l, Payload: body}}})
			out = append(out, c13HsCase{Role: "server", Script: []c13Ev{{Type: uint8(typeExchangeProtoVersion), Version: 3, Len: -1}, {Type: uint8(typeShareMemoryByMemfd), Version: 3, Len: l, Payload: body}}})
		}
	}
	// memfd path: after the ack the peer sends garbage instead of descriptors
	for _, tail := range [][]byte{nil, {1}, {1, 2, 3, 4, 5, 6, 7, 8}, make([]byte, 64)} {
		out = append(out, c13HsCase{Role: "server", Script: []c13Ev{{Type: uint8(typeExchangeProtoVersion), Version: 3, Len: -1}, {Type: uint8(typeShareMemoryByMemfd), Version: 3, Len: -1, Payload: good}}, Raw: tail})
	}
	// handshakes that can succeed (real shared-memory files behind the announced paths) under every announced version:
	// the session is then USED (open a stream, write, flush, close) - a value taken from the wire during the handshake
	// must not crash a later operation either
	for _, ver := range []uint8{0, 1, 2, 3, 4, 7, 255} {
		out = append(out, c13HsCase{Role: "server", RealFiles: true, Script: []c13Ev{{Type: uint8(typeShareMemoryByFilePath), Version: ver, Len: -1}}})
		for _, v2 := range []uint8{2, 3, ver} {
			out = append(out, c13HsCase{Role: "server", RealFiles: true, Script: []c13Ev{{Type: uint8(typeExchangeProtoVersion), Version: ver, Len: -1}, {Type: uint8(typeShareMemoryByFilePath), Version: v2, Len: -1}}})
		}
		out = append(out, c13HsCase{Role: "client-memfd", Script: []c13Ev{{Type: uint8(typeExchangeProtoVersion), Version: ver, Len: -1}, {Type: uint8(typeAckReadyRecvFD), Version: ver, Len: -1}, {Type: uint8(typeAckShareMemory), Version: ver, Len: -1}}})
		out = append(out, c13HsCase{Role: "client-memfd", Script: []c13Ev{{Type: uint8(typeExchangeProtoVersion), Version: ver, Len: -1}, {Type: uint8(typeAckReadyRecvFD), Version: 3, Len: -1}, {Type: uint8(typeAckShareMemory), Version: 3, Len: -1}}})
	}
	// client role (memfd mapping => version exchange): the server answers with any event
	for _, typ := range []uint8{0, 1, 2, 3, 4, 5, 6, 7, 8, 9, 10, 255} {
		for _, ver := range []uint8{0, 1, 2, 3, 4, 255} {
			out = append(out, c13HsCase{Role: "client-memfd", Script: []c13Ev{{Type: typ, Version: ver, Len: -1}}})
			if thorough || typ == uint8(typeExchangeProtoVersion) {
				for _, t2 := range []uint8{0, 4, 6, 7, 9, 255} {
					out = append(out, c13HsCase{Role: "client-memfd", Script: []c13Ev{{Type: typ, Version: ver, Len: -1}, {Type: t2, Version: 3, Len: -1}}})
					out = append(out, c13HsCase{Role: "client-memfd", Script: []c13Ev{{Type: typ, Version: ver, Len: -1}, {Type: uint8(typeAckReadyRecvFD), Version: 3, Len: -1}, {Type: t2, Version: 3, Len: -1}}})
				}
			}
		}
	}
	return out
}

// c13HsRun runs one handshake case in THIS process (called in the child). Returns a description of the outcome.
func c13HsRun(c c13HsCase, n int) string {
	debugMode = true
	SetLogLevel(levelNoPrint)
	fds, err := syscall.Socketpair(syscall.AF_UNIX, syscall.SOCK_STREAM, 0)
	if err != nil {
		return "socketpair: " + err.Error()
	}
	f := os.NewFile(uintptr(fds[0]), "hs")
	conn, err := net.FileConn(f)
	f.Close()
	if err != nil {
		return "fileconn: " + err.Error()
	}
	peer := fds[1]
	var script []byte
	var cleanup []string
	for i, e := range c.Script {
		if c.RealFiles && i == len(c.Script)-1 {
			qp := fmt.Sprintf("/dev/shm/verif_c13_%d_%d_queue", os.Getpid(), n)
			bp := fmt.Sprintf("/dev/shm/verif_c13_%d_%d_buffer", os.Getpid(), n)
			cleanup = append(cleanup, qp, bp)
			os.Remove(qp) // (files of a killed earlier run whose process id was reused)
			os.Remove(bp)
			qm, err := createQueueManager(qp, 8)
			if err != nil {
				return "harness: createQueueManager: " + err.Error()
			}
			bm, err := getGlobalBufferManager(bp, 1<<20, true, []*SizePercentPair{{Size: 4096, Percent: 100}})
			if err != nil {
				return "harness: getGlobalBufferManager: " + err.Error()
			}
			_, _ = qm, bm
			pl := make([]byte, 0, 4+len(qp)+len(bp))
			x := make([]byte, 2)
			binary.BigEndian.PutUint16(x, uint16(len(qp)))
			pl = append(append(pl, x...), qp...)
			binary.BigEndian.PutUint16(x, uint16(len(bp)))
			pl = append(append(pl, x...), bp...)
			e.Payload = pl
		}
		script = append(script, e.bytes()...)
	}
	defer func() {
		for _, f := range cleanup {
			os.Remove(f)
		}
	}()
	script = append(script, c.Raw...)
	cfg := DefaultConfig()
	cfg.InitializeTimeout = 40 * time.Millisecond
	cfg.ShareMemoryBufferCap = 1 << 20
	cfg.QueueCap = 8
	cfg.LogOutput = io.Discard
	if c.Role == "client-memfd" {
		cfg.MemMapType = MemMapTypeMemFd
		cfg.ShareMemoryPathPrefix = fmt.Sprintf("verif_c13_%d_%d", os.Getpid(), n)
		cfg.QueuePath = cfg.ShareMemoryPathPrefix + "_queue"
	}
	done := make(chan struct{})
	go func() { // the scripted raw peer: plays its bytes, drains whatever comes back, then stays silent
		syscall.Write(peer, script)
		buf := make([]byte, 4096)
		syscall.SetNonblock(peer, true)
		for {
			select {
			case <-done:
				return
			default:
			}
			syscall.Read(peer, buf)
			time.Sleep(time.Millisecond)
		}
	}()
	s, err := newSession(cfg, conn, c.Role != "server")
	close(done)
	res := "error"
	if err == nil {
		res = "established"
		// use the session: nothing the peer announced during the handshake may crash a later call
		if st, e := s.OpenStream(); e == nil {
			st.BufferWriter().WriteBytes([]byte("hello"))
			st.Flush(false)
			st.SetReadDeadline(time.Now().Add(5 * time.Millisecond))
			st.BufferReader().ReadBytes(1)
			st.Close()
			res = "established+used"
		}
		s.GetMetrics()
		s.Close()
	}
	syscall.Close(peer)
	return res
}

// TestVerif_C13Child: runs handshake cases [from, to) of the enumeration and prints one line per finished case.
func TestVerif_C13Child(t *testing.T) {
	spec := os.Getenv("VERIF_C13_RANGE")
	if spec == "" {
		t.Skip("child only")
	}
	var from, to int
	fmt.Sscanf(spec, "%d-%d", &from, &to)
	cases := c13HsCases(os.Getenv("VERIF_TIER") == "thorough")
	for i := from; i < to && i < len(cases); i++ {
		fmt.Printf("C13HS start %d\n", i)
		r := c13HsRun(cases[i], i)
		fmt.Printf("C13HS done %d %s\n", i, r)
	}
	time.Sleep(60 * time.Millisecond) // let straggling handshake goroutines hit their failure paths
	fmt.Println("C13HS end")
}

// c13Handshake drives the children; a child that dies identifies the case it was running.
func c13Handshake(w *worker, res *vrt.Result) {
	cases := c13HsCases(w.thorough())
	const batch = 40
	nb := 0
	outcomes := map[string]int64{}
	for from := 0; from < len(cases); from += batch {
		nb++
		if nb%w.shardN != w.shardI {
			continue
		}
		lo := from
		for lo < from+batch && lo < len(cases) {
			cmd := exec.Command(os.Args[0], "-test.run", "^TestVerif_C13Child$", "-test.timeout", "120s")
			cmd.Env = append(os.Environ(), fmt.Sprintf("VERIF_C13_RANGE=%d-%d", lo, from+batch), "VERIF_OUT=", "VERIF_REPLAY=")
			out, _ := cmd.CombinedOutput()
			last, ended := -1, false
			started := -1
			for _, line := range strings.Split(string(out), "\n") {
				var i int
				var r string
				if n, _ := fmt.Sscanf(line, "C13HS done %d %s", &i, &r); n == 2 {
					last = i
					outcomes[r]++
					res.Execs++
				} else if n, _ := fmt.Sscanf(line, "C13HS start %d", &i); n == 1 {
					started = i
				} else if strings.HasPrefix(line, "C13HS end") {
					ended = true
				}
			}
			if ended {
				break
			}
			// the child died: the case that was started last without finishing (or the straggler of the last finished one)
			bad := started
			if bad < 0 {
				bad = lo
			}
			tail := string(out)
			if i := strings.Index(tail, "panic:"); i >= 0 {
				tail = tail[i:]
			} else if i := strings.Index(tail, "fatal error:"); i >= 0 {
				tail = tail[i:]
			}
			if len(tail) > 700 {
				tail = tail[:700]
			}
			if len(res.Failures) < 3 {
				msg := fmt.Sprintf("handshake case %d %+v crashed the process: %s", bad, cases[bad], tail)
				res.Failures = append(res.Failures, &vrt.Failure{Kind: "oracle", Sig: c13HsSig(tail), Msg: msg, Params: map[string]interface{}{"hs": cases[bad], "index": bad}})
			}
			res.FailCount[c13HsSig(tail)]++
			if last >= bad {
				lo = last + 1
			} else {
				lo = bad + 1
			}
		}
	}
	for k, v := range outcomes {
		res.Outcomes["handshake-"+k] += v
	}
}

func c13HsSig(tail string) string {
	switch {
	case strings.Contains(tail, "extractShmMetadata") || strings.Contains(tail, "handleShareMemoryBy"):
		return "known:handshake-metadata-bounds"
	}
	return "handshake-crash"
}

func TestVerif_C13(t *testing.T) {
	w := newWorker(t, "C13")
	defer w.finish()
	st := &c13Stats{effects: map[string]bool{}}
	if w.replay != nil {
		var rp struct {
			Case *c13Case   `json:"case"`
			Hs   *c13HsCase `json:"hs"`
			Idx  int        `json:"index"`
		}
		if err := json.Unmarshal(w.replay.Params, &rp); err != nil {
			t.Fatalf("replay params: %v", err)
		}
		for i := 0; i < 5; i++ {
			sig, msg := "", ""
			if rp.Case != nil && len(rp.Case.Cuts) > 0 && len(rp.Case.Events) > 0 && len(rp.Case.Events[0].bytes()) > 4096 {
				// a large case: exactly the recorded splitting against the unsplit string (not every splitting again)
				ref, pan := c13RunCase(c13Case{Kind: rp.Case.Kind, Events: rp.Case.Events})
				eff, pan2 := c13RunCase(*rp.Case)
				v := ""
				switch {
				case pan != "":
					v = "unsplit: " + pan
				case pan2 != "":
					v = fmt.Sprintf("cuts %v: %s", rp.Case.Cuts, pan2)
				case eff != ref:
					v = fmt.Sprintf("cuts %v: effect depends on the splitting:\n  unsplit: %s\n  split:   %s", rp.Case.Cuts, ref, eff)
				}
				if v != "" {
					sig, msg = c13Sig(v), v
				}
			} else if rp.Case != nil {
				v, _ := c13Check(st, rp.Case.Kind, rp.Case.Events, len(rp.Case.Cuts))
				if v != "" {
					sig, msg = c13Sig(v), v
				}
			} else if rp.Hs != nil {
				cmd := exec.Command(os.Args[0], "-test.run", "^TestVerif_C13Child$", "-test.timeout", "60s")
				cmd.Env = append(os.Environ(), fmt.Sprintf("VERIF_C13_RANGE=%d-%d", rp.Idx, rp.Idx+1), "VERIF_OUT=", "VERIF_REPLAY=", "VERIF_TIER="+os.Getenv("VERIF_REPLAY_TIER"))
				out, _ := cmd.CombinedOutput()
				if !strings.Contains(string(out), "C13HS end") {
					msg = string(out)
					if j := strings.Index(msg, "panic:"); j >= 0 {
						msg = msg[j:]
					}
					if len(msg) > 500 {
						msg = msg[:500]
					}
					sig = c13HsSig(msg)
				}
			}
			fmt.Printf("REPLAY run=%d scenario=c13 steps=0 fail_sig=%q msg=%q\n", i, sig, msg)
		}
		return
	}
	res := &vrt.Result{Name: "c13", Exhaustive: true, Outcomes: map[string]int64{}, Counts: map[string]int64{}, FailCount: map[string]int64{}}
	maxCuts := 1
	if w.thorough() {
		maxCuts = 2
	}
	presetSig := ""
	fail := func(v string, c *c13Case) {
		sig := c13Sig(v)
		if presetSig != "" {
			sig = presetSig
		}
		res.FailCount[sig]++
		if res.FailCount[sig] == 1 && len(res.Failures) < 6 {
			res.Failures = append(res.Failures, &vrt.Failure{Kind: "oracle", Sig: sig, Msg: v, Params: map[string]interface{}{"case": c}})
		}
	}
	kinds := []string{"client-manager", "server-listener", "server-plain"}
	n := 0
	// 1. every single event of the grammar
	for _, k := range kinds {
		for _, e := range c13Grammar() {
			n++
			if n%w.shardN != w.shardI {
				continue
			}
			if v, c := c13Check(st, k, []c13Ev{e}, maxCuts); v != "" {
				fail(v, c)
			}
		}
	}
	// 2. pairs (and triples) of the reduced set
	red := c13Reduced()
	for _, k := range kinds {
		for _, a := range red {
			for _, b := range red {
				n++
				if n%w.shardN == w.shardI {
					if v, c := c13Check(st, k, []c13Ev{a, b}, maxCuts); v != "" {
						fail(v, c)
					}
				}
				if !w.thorough() && !(a.Type == uint8(typePolling) || b.Type == uint8(typeFallbackData)) {
					continue
				}
				for _, c3 := range red {
					n++
					if n%w.shardN != w.shardI {
						continue
					}
					mc := 1
					if v, c := c13Check(st, k, []c13Ev{a, b, c3}, mc); v != "" {
						fail(v, c)
					}
					if w.expired() {
						res.Exhaustive, res.CapHit = false, "deadline"
						break
					}
				}
			}
		}
	}
	// 2b. LARGE events: more control traffic than the connection's 64 KiB read buffer holds, so that the buffer has to be
	// compacted and grown while part of an event is pending: three well-formed fallback-data events of 30 000 bytes each
	// (and a 70 000-byte one between two small ones), one cut at every 499th position and around every event boundary
	{
		big := func(stream uint32, n int, seed byte) c13Ev {
			pl := append(u32(stream), u32(uint32(streamOpened))...)
			for i := 0; i < n; i++ {
				pl = append(pl, seed+byte(i*7))
			}
			return c13Ev{Type: uint8(typeFallbackData), Version: protoVersion, Len: -1, Payload: pl}
		}
		seqs := [][]c13Ev{
			{big(2, 30000, 1), big(2, 30000, 2), big(2, 30000, 3)},
			{big(2, 100, 1), big(2, 70000, 2), big(2, 100, 3), {Type: uint8(typePolling), Version: protoVersion, Len: -1}},
			{big(2, 45000, 1), big(5, 20000, 2), big(2, 500, 3)},
		}
		for _, k := range kinds {
			for _, evs := range seqs {
				n++
				if n%w.shardN != w.shardI {
					continue
				}
				bounds := map[int]bool{}
				off := 0
				for _, e := range evs {
					off += len(e.bytes())
					for d := -2; d <= headerSize+9; d++ {
						bounds[off+d] = true
					}
				}
				c13CutFilter = func(pos, total int) bool { return pos%499 == 0 || bounds[pos] || pos < 20 || pos > total-20 }
				v, c := c13Check(st, k, evs, 1)
				c13CutFilter = nil
				if v != "" {
					presetSig = c13Sig(v) // (classified on the full text)
					if len(v) > 900 {
						v = v[:200] + " ... " + v[len(v)-600:] // (the event dump of a large case is long)
					}
					fail(v, c)
					presetSig = ""
				}
				res.Outcomes["large-events"]++
			}
		}
	}
	// 3. handshake phase in child processes
	c13Handshake(w, res)
	res.Execs += st.cases
	res.Transitions = st.cases
	res.States = int64(len(st.effects))
	res.Counts["byte_strings"] = st.strings
	res.Counts["splittings"] = st.cutsTried
	res.Counts["strings_that_closed_the_session"] = st.closedCases
	res.Outcomes["established-distinct-effects"] = int64(len(st.effects))
	if len(w.out.Samples) == 0 {
		w.out.Samples = append(w.out.Samples, map[string]interface{}{"kind": "server-listener", "events": fmt.Sprint(red[3], red[0]), "cuts": []int{5}})
	}
	w.out.Scenarios = append(w.out.Scenarios, &scenarioResult{Name: "c13", Result: res})
}
