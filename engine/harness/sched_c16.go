//go:build verif

package shmipc

import (
	"bytes"
	"fmt"
	"os"
	"testing"

	"github.com/cloudwego/shmipc-go/internal/vrt"
)

// C16 / C17 — hot restart and healing of the session manager.
//
// E-net under the scheduler with virtual time: the REAL Listener (NewListener, Run, HotRestart, checkHotRestart,
// Close) as server process(es) on a real unix socket (Accept is a blocking scheduling point), the REAL
// SessionManager (NewSessionManager, the per-pool watcher goroutines, handleSessionManagerHotRestart,
// checkHotRestart, GetStream / PutBack, Close) as client process, real sessions, real event handlers. Server
// streams echo in callback mode, prefixing every answer with the server's tag, so that a round trip tells which
// server a pool is connected to.

type hrWorld struct {
	p     *ePair
	path  string
	n     int
	oldL  *Listener
	newL  *Listener
	sm    *SessionManager
	runs  []*vrt.Thread
	epoch uint64
}

type hrCB struct {
	tag     byte
	streams int
}

func (c *hrCB) OnShutdown(reason string) {}
func (c *hrCB) OnNewStream(s *Stream) {
	c.streams++
	rc := &recordingCallbacks{st: s}
	rc.onData = func(r BufferReader) {
		b, err := r.ReadBytes(r.Len())
		if err != nil {
			return
		}
		out := append([]byte{c.tag}, b...)
		r.ReleasePreviousRead()
		s.BufferWriter().WriteBytes(out)
		s.Flush(false)
	}
	s.SetCallbacks(rc)
}

func (w *hrWorld) listenerConfig() *ListenerConfig {
	lc := NewDefaultListenerConfig(w.path, "unix")
	lc.Config = pairConfig(pairOpts{}, w.p.name+"_srv")
	return lc
}

func (w *hrWorld) clientConfig(rebuild vrt.Duration) *SessionManagerConfig {
	c := DefaultSessionManagerConfig()
	c.Config = pairConfig(pairOpts{}, w.p.name)
	c.Config.rebuildInterval = rebuild
	c.Config.ConnectionWriteTimeout = vrt.Second
	c.Network, c.Address = "unix", w.path
	c.SessionNum = w.n
	c.MaxStreamNum = 4
	return c
}

// startListener creates a listener in the given server process and runs its accept loop in a thread of that process.
func (w *hrWorld) startListener(proc int, tag byte) *Listener {
	var l *Listener
	var err error
	t := vrt.GoProc(fmt.Sprintf("new-listener%d", proc), proc, func() {
		l, err = NewListener(&hrCB{tag: tag}, w.listenerConfig())
		if err == nil {
			l.SetUnlinkOnClose(false)
			ln := l.ln
			vrt.OnCleanup(func() { ln.Close() })
		}
	})
	vrt.WaitThreads(t)
	if err != nil {
		vrt.Failf("harness", "NewListener: %v", err)
	}
	r := vrt.GoDaemon(fmt.Sprintf("run%d", proc), func() { l.Run() })
	r.Proc = proc
	w.runs = append(w.runs, r)
	return l
}

func newHRWorld(n int, rebuild vrt.Duration) *hrWorld {
	w := &hrWorld{p: pairBegin(), n: n}
	w.path = fmt.Sprintf("/tmp/%s.sock", w.p.name)
	os.Remove(w.path)
	vrt.OnCleanup(func() { os.Remove(w.path) })
	vrt.Quiet(true)
	w.oldL = w.startListener(2, 'O')
	var err error
	t := vrt.GoProc("new-sm", 1, func() { w.sm, err = NewSessionManager(w.clientConfig(rebuild)) })
	vrt.WaitThreads(t)
	if err != nil {
		vrt.Failf("harness", "NewSessionManager: %v", err)
	}
	vrt.WaitIdle(0)
	vrt.Quiet(false)
	return w
}

// roundTrip does GetStream / write / read the echo / PutBack. Returns the tag of the answering server.
func (w *hrWorld) roundTrip(payload int) (tag byte, err error) {
	st, err := w.sm.GetStream()
	if err != nil {
		return 0, err
	}
	if st == nil {
		vrt.Failf("nil-stream", "GetStream returned (nil, nil)")
	}
	req := patBytes(payload, 0, 6)
	st.BufferWriter().WriteBytes(req)
	if err = st.Flush(false); err != nil {
		w.sm.PutBack(st)
		return 0, err
	}
	st.SetReadDeadline(vrt.Now().Add(3 * vrt.Second))
	b, err := st.BufferReader().ReadBytes(7)
	if err != nil {
		st.Close()
		return 0, err
	}
	if !bytes.Equal(b[1:], req) {
		vrt.Failf("echo", "round trip returned %x for %x", b, req)
	}
	tag = b[0]
	st.BufferReader().ReleasePreviousRead()
	w.sm.PutBack(st)
	return tag, nil
}

func (w *hrWorld) smState() (sessionSateType, uint64, int) {
	w.sm.RLock()
	defer w.sm.RUnlock()
	return w.sm.state, w.sm.epoch, len(w.sm.reservePools)
}

type c16Opts struct {
	name       string
	n          int
	newServer  bool // a new server is listening when the hot restart is requested
	traffic    bool // a client thread does round trips throughout
	foreign    bool // a restart event with another epoch arrives while the restart is in progress
	loseOne    bool // one old server-side session is closed at any moment during the restart
	noPath     bool // the new server has removed the socket file but is not listening yet: dialling fails
	lateServer bool // the new server starts listening only after the hand-over has timed out; then the old server lets go
	foreignAck bool // while the restart is in progress a client session sends an ACK carrying another epoch (a late ack of an earlier round)
}

func c16Body(o c16Opts) func() {
	return func() {
		rebuild := 60 * vrt.Second
		if o.lateServer {
			rebuild = vrt.Second
		}
		w := newHRWorld(o.n, rebuild)
		const epoch = 1024
		// before: every pool answers through the old server
		t := vrt.GoProc("warmup", 1, func() {
			for i := 0; i < o.n; i++ {
				w.sm.count = uint64(i*sessionRoundRobinThreshold) + 1 // GetStream picks the pool by count/32: probe pool i
				if tag, err := w.roundTrip(1); err != nil || tag != 'O' {
					vrt.Failf("harness", "warm-up round trip: tag %c err %v", tag, err)
				}
			}
		})
		vrt.Quiet(true)
		vrt.WaitThreads(t)
		vrt.WaitIdle(0)
		vrt.Quiet(false)
		var ths []*vrt.Thread
		var hrErr error
		var hrStart, hrDoneAt int64
		hrCalled := false
		oldClosed := false
		trafficErrs, trafficOK := 0, 0
		ths = append(ths, vrt.GoProc("admin", 2, func() {
			if o.newServer {
				w.newL = w.startListener(3, 'N')
			}
			if o.noPath {
				os.Remove(w.path)
			}
			hrStart = vrt.VNow()
			hrErr = w.oldL.HotRestart(epoch)
			hrCalled = true
			if hrErr != nil {
				return
			}
			for !w.oldL.IsHotRestartDone() {
				if vrt.VNow()-hrStart > int64(4*vrt.Second) {
					vrt.Failf("listener-stuck", "the old listener is still in hot-restart state %d ms after HotRestart()", (vrt.VNow()-hrStart)/1e6)
				}
				vrt.Sleep(100 * ms)
			}
			hrDoneAt = vrt.VNow()
			if o.newServer && !o.loseOne {
				w.oldL.Close() // the old server lets go
				oldClosed = true
			}
			if o.lateServer {
				// the hand-over has timed out on both sides (the client's 2 s are over when the server's are); only now
				// the new server is there, and the old one lets go: its sessions end, the pools have to follow
				vrt.Sleep(500 * ms)
				w.newL = w.startListener(3, 'N')
				w.oldL.Close()
				oldClosed = true
			}
		}))
		if o.traffic {
			ths = append(ths, vrt.GoProc("traffic", 1, func() {
				for i := 0; i < 3; i++ {
					if _, err := w.roundTrip(2 + i); err != nil {
						trafficErrs++
					} else {
						trafficOK++
					}
					vrt.Sleep(150 * ms)
				}
			}))
		}
		if o.foreign {
			ths = append(ths, vrt.GoProc("foreign-epoch", 2, func() {
				// "foreign" is relative to a restart in progress: before HotRestart(epoch) was called an event of another
				// epoch is simply a restart request of its own and the manager is right to follow it
				vrt.Point("wait-restart", func() bool { return hrCalled })
				vrt.AnyMoment()
				// a restart event of another epoch on the first old session (e.g. a confused or second old server)
				w.oldL.sessions.sessionMu.Lock()
				var first *Session
				for _, s := range vrt.SortedKeys(w.oldL.sessions.data) {
					first = s
					break
				}
				w.oldL.sessions.sessionMu.Unlock()
				if first != nil {
					first.hotRestart(999, typeHotRestart)
				}
			}))
		}
		if o.foreignAck {
			ths = append(ths, vrt.GoProc("foreign-ack", 1, func() {
				vrt.Point("wait-restart", func() bool { return hrCalled || hrErr != nil })
				vrt.AnyMoment()
				// an acknowledgement of epoch 999 on every client session: nobody asked for that epoch
				for _, pool := range w.sm.pools {
					pool.Session().hotRestart(999, typeHotRestartAck)
				}
			}))
		}
		if o.loseOne {
			ths = append(ths, vrt.GoLazy("lose-one", 2, func() {
				w.oldL.sessions.sessionMu.Lock()
				var first *Session
				for _, s := range vrt.SortedKeys(w.oldL.sessions.data) {
					first = s
					break
				}
				w.oldL.sessions.sessionMu.Unlock()
				if first != nil {
					first.Close()
				}
			}))
		}
		vrt.WaitThreads(ths...)
		vrt.WaitIdle(3 * vrt.Second)
		if o.lateServer {
			vrt.WaitIdle(3 * vrt.Second) // rebuild interval 1 s + handshake
		}
		if hrErr != nil {
			vrt.Failf("hotrestart-error", "Listener.HotRestart: %v", hrErr)
		}
		st, ep, _ := w.smState()
		if st == hotRestartState {
			vrt.Failf("manager-stuck", "3 virtual seconds after the listener left the hot-restart state the session manager is still in it")
		}
		if o.foreignAck && o.noPath && hrDoneAt-hrStart < int64(hotRestartCheckTimeout) {
			vrt.Failf("foreign-ack-counted", "no client could move (nobody listens), the only acknowledgements carried a foreign epoch: the listener left the hot-restart state after %d ms, before its %d ms timeout", (hrDoneAt-hrStart)/1e6, int64(hotRestartCheckTimeout)/1e6)
		}
		if hrDoneAt-hrStart > int64(hotRestartCheckTimeout)+int64(2*hotRestartCheckInterval) {
			vrt.Failf("listener-late", "the listener left the hot-restart state after %d ms (timeout %d ms + one tick)", (hrDoneAt-hrStart)/1e6, int64(hotRestartCheckTimeout)/1e6)
		}
		// afterwards: which server do the pools talk to?
		full := o.newServer && !o.loseOne
		var tags []byte
		var errs []error
		tt := vrt.GoProc("after", 1, func() {
			for i := 0; i < o.n; i++ {
				w.sm.count = uint64(i*sessionRoundRobinThreshold) + 1 // one probe per pool
				tag, err := w.roundTrip(9)
				tags = append(tags, tag)
				errs = append(errs, err)
			}
		})
		vrt.WaitThreads(tt)
		for i := range tags {
			switch {
			case full:
				if errs[i] != nil || tags[i] != 'N' {
					vrt.Failf("not-moved", "after a completed hot restart pool probe %d answered by %q (err %v); every pool must be on the new server", i, tags[i], errs[i])
				}
			case o.lateServer:
				if errs[i] != nil || tags[i] != 'N' {
					vrt.Failf("not-moved", "the hand-over timed out, then the new server came up and the old one let go; %d virtual seconds later pool probe %d is answered by %q (err %v, pool session closed=%v epoch=%d, manager epoch %d): the pool must follow to the new server", 6, i, tags[i], errs[i], w.sm.pools[i].Session().IsClosed(), w.sm.pools[i].Session().epochID, ep)
				}
			case !o.newServer:
				if errs[i] != nil || tags[i] != 'O' {
					vrt.Failf("lost-old", "the new server never came up; pool probe %d: tag %q err %v (the old sessions must keep working)", i, tags[i], errs[i])
				}
			}
		}
		if full {
			if ep != epoch {
				vrt.Failf("epoch", "session manager epoch %d after a restart to epoch %d", ep, epoch)
			}
			for i, pool := range w.sm.pools {
				s := pool.Session()
				if s.epochID != epoch || s.IsClosed() {
					vrt.Failf("not-moved", "pool %d holds a session of epoch %d (closed=%v)", i, s.epochID, s.IsClosed())
				}
			}
		}
		if o.traffic && !o.loseOne && trafficErrs > 0 && !oldClosed {
			vrt.Failf("traffic-error", "%d of %d round trips failed although no server went away", trafficErrs, trafficErrs+trafficOK)
		}
		vrt.Outcome(fmt.Sprintf("tags=%s errs=%v traffic=%d/%d state=%d epoch=%d t=%dms", string(tags), errs, trafficOK, trafficOK+trafficErrs, st, ep, (hrDoneAt-hrStart)/1e6))
	}
}

func TestVerif_C16(t *testing.T) {
	mk := func(o c16Opts, b, bt int) bScenario {
		return bScenario{Name: o.name, Bound: b, BoundT: bt, Body: c16Body(o), Live: true, Racy: false}
	}
	w := newWorker(t, "C16")
	defer w.finish()
	if runMgrHistories(w, "C16", 5, 7) {
		return
	}
	runBScenariosW(w, "C16", []bScenario{
		mk(c16Opts{name: "one-session", n: 1, newServer: true}, 1, 2),
		mk(c16Opts{name: "two-sessions-traffic", n: 2, newServer: true, traffic: true}, 1, 2),
		mk(c16Opts{name: "new-server-not-up", n: 1, newServer: false, traffic: true}, 1, 2),
		mk(c16Opts{name: "dial-fails-no-listener", n: 1, newServer: false, noPath: true, traffic: true}, 1, 2),
		mk(c16Opts{name: "foreign-epoch", n: 1, newServer: true, foreign: true}, 1, 2),
		mk(c16Opts{name: "foreign-ack-while-nobody-can-move", n: 2, newServer: false, noPath: true, foreignAck: true}, 1, 2),
		mk(c16Opts{name: "one-session-lost-midway", n: 2, newServer: true, loseOne: true}, 1, 2),
		mk(c16Opts{name: "new-server-late-old-lets-go", n: 2, newServer: false, noPath: true, lateServer: true}, 1, 2),
		mk(c16Opts{name: "new-server-late-traffic", n: 1, newServer: false, lateServer: true, traffic: true}, 1, 2),
	})
}

// ---------------------------------------------------------------------------------------------------------
// C17 — the session manager heals lost sessions and only those.

type c17Opts struct {
	name        string
	n           int
	lose        string // "server-session" (the server closes one session) | "server-down" (listener + sessions gone, socket removed, back after 2.5 s) | "none"
	hotRestart  bool   // a completed hot restart first; then the old server goes away (its sessions must NOT be rebuilt)
	closeSM     bool   // SessionManager.Close at any moment
	loseInSetup bool   // the loss happens before the explored part begins (the watcher is about to rebuild)
	closeAfter  vrt.Duration // with closeSM: Close is called this long after the start (instead of "at any moment"); with racy timers: at any step from then on
	racy        bool
	failedHR    bool   // first a hot restart whose hand-over times out (no new server): the manager's epoch moves, the pools stay
	traffic     bool
}

func (w *hrWorld) serverSessions(l *Listener) []*Session {
	l.sessions.sessionMu.Lock()
	defer l.sessions.sessionMu.Unlock()
	return vrt.SortedKeys(l.sessions.data)
}

func c17Body(o c17Opts) func() {
	return func() {
		const rebuild = vrt.Second
		w := newHRWorld(o.n, rebuild)
		cbNewSessions := func(l *Listener) int { return len(w.serverSessions(l)) }
		before := make([]*Session, o.n)
		for i, p := range w.sm.pools {
			before[i] = p.Session()
		}
		var ths []*vrt.Thread
		var lostAt int64 = -1
		callErrs, callOK, slow := 0, 0, 0
		if o.hotRestart {
			t := vrt.GoProc("admin", 2, func() {
				w.newL = w.startListener(3, 'N')
				if err := w.oldL.HotRestart(77); err != nil {
					vrt.Failf("harness", "HotRestart: %v", err)
				}
				for !w.oldL.IsHotRestartDone() {
					vrt.Sleep(100 * ms)
				}
			})
			vrt.Quiet(true)
			vrt.WaitThreads(t)
			vrt.WaitIdle(vrt.Second)
			vrt.Quiet(false)
			for i, p := range w.sm.pools {
				before[i] = p.Session()
				if before[i].epochID != 77 {
					vrt.Failf("harness", "hot restart did not complete in the setup phase")
				}
			}
		}
		if o.failedHR {
			// the new server has taken the socket path away but does not listen before the hand-over has timed out
			t := vrt.GoProc("admin", 2, func() {
				os.Remove(w.path)
				if err := w.oldL.HotRestart(55); err != nil {
					vrt.Failf("harness", "HotRestart: %v", err)
				}
				for !w.oldL.IsHotRestartDone() {
					vrt.Sleep(100 * ms)
				}
				vrt.Sleep(500 * ms)
				w.newL = w.startListener(3, 'N')
			})
			vrt.Quiet(true)
			vrt.WaitThreads(t)
			vrt.WaitIdle(vrt.Second)
			vrt.Quiet(false)
			if st, ep, _ := w.smState(); st == hotRestartState || ep != 55 {
				vrt.Failf("harness", "failed hot restart in the setup phase: manager state %d epoch %d", st, ep)
			}
			for i, p := range w.sm.pools {
				if p.Session() != before[i] {
					vrt.Failf("harness", "the hand-over was meant to fail in the setup phase, pool %d has a new session", i)
				}
			}
		}
		switch o.lose {
		case "server-session":
			if o.loseInSetup {
				vrt.Quiet(true)
			}
			spawn := vrt.GoLazy
			if o.loseInSetup {
				spawn = vrt.GoProc
			}
			ths = append(ths, spawn("lose", 2, func() {
				ss := w.serverSessions(w.oldL)
				if len(ss) > 0 {
					lostAt = vrt.VNow()
					ss[0].Close()
				}
			}))
			if o.loseInSetup {
				vrt.WaitThreads(ths...)
				vrt.WaitIdle(0)
				vrt.Quiet(false)
				ths = nil
			}
		case "server-down":
			ths = append(ths, vrt.GoLazy("server-down", 2, func() {
				lostAt = vrt.VNow()
				if !o.hotRestart {
					os.Remove(w.path) // (after a hot restart the path belongs to the new server)
				}
				w.oldL.Close()
			}))
			if !o.hotRestart {
				ths = append(ths, vrt.GoProc("server-back", 3, func() {
					vrt.Point("wait-down", func() bool { return lostAt >= 0 })
					vrt.Sleep(2500 * ms)
					w.newL = w.startListener(3, 'N')
				}))
			}
		}
		if o.traffic {
			ths = append(ths, vrt.GoProc("traffic", 1, func() {
				for i := 0; i < 4; i++ {
					t0 := vrt.VNow()
					w.sm.count = 1
					_, err := w.roundTrip(3 + i)
					if err != nil {
						callErrs++
					} else {
						callOK++
					}
					if vrt.VNow()-t0 > int64(4*vrt.Second) {
						slow++
					}
					vrt.Sleep(400 * ms)
				}
			}))
		}
		if o.closeSM {
			spawn := vrt.GoLazy
			if o.closeAfter > 0 {
				spawn = vrt.GoProc
			}
			ths = append(ths, spawn("sm-closer", 1, func() {
				if o.closeAfter > 0 {
					vrt.Sleep(o.closeAfter)
				}
				w.sm.Close()
			}))
		}
		vrt.WaitThreads(ths...)
		vrt.WaitIdle(6 * vrt.Second) // rebuild interval 1 s, server back after 2.5 s: everything has settled by now
		if slow > 0 {
			vrt.Failf("call-hangs", "%d calls took longer than 4 virtual seconds while a session was lost (they must fail, not hang)", slow)
		}
		if o.closeSM {
			// closing the manager stops all of it: the watchers are gone and nothing is rebuilt any more
			if n := w.sm.wg.Count(); n != 0 {
				vrt.Failf("watchers-left", "%d watcher goroutines still registered after SessionManager.Close", n)
			}
			for i, p := range w.sm.pools {
				if !p.Session().IsClosed() {
					vrt.Failf("not-closed", "pool %d still holds an open session after SessionManager.Close (a session established while Close was running)", i)
				}
			}
			// nothing of the manager lives on at the server either, and the manager hands out no stream any more
			open := 0
			for _, l := range []*Listener{w.oldL, w.newL} {
				if l == nil {
					continue
				}
				for _, s := range w.serverSessions(l) {
					if !s.IsClosed() {
						open++
					}
				}
			}
			if open != 0 {
				vrt.Failf("not-closed", "%d sessions of the closed manager are still open at the server", open)
			}
			var gerr error
			var gst *Stream
			tg := vrt.GoProc("after-close", 1, func() { gst, gerr = w.sm.GetStream() })
			vrt.WaitThreads(tg)
			if gerr == nil {
				vrt.Failf("not-closed", "GetStream on a closed SessionManager returned a stream (%v)", gst != nil)
			}
			vrt.Outcome("closed")
			return
		}
		// healed: every pool holds an open session and a round trip through each pool works
		var tags []byte
		tt := vrt.GoProc("after", 1, func() {
			for i := 0; i < o.n; i++ {
				w.sm.count = uint64(i*sessionRoundRobinThreshold) + 1
				tag, err := w.roundTrip(9)
				if err != nil {
					vrt.Failf("not-healed", "pool %d: round trip after the healing period failed: %v (session closed=%v)", i, err, w.sm.pools[i].Session().IsClosed())
				}
				tags = append(tags, tag)
			}
		})
		vrt.WaitThreads(tt)
		rebuilt := 0
		for i, p := range w.sm.pools {
			if p.Session() != before[i] {
				rebuilt++
			}
		}
		switch {
		case o.hotRestart:
			// the old server went away after the hand-over: the pools already live on the new server, nothing to rebuild,
			// and the new server must have exactly one session per pool
			if rebuilt != 0 {
				vrt.Failf("rebuilt-twice", "%d pools were rebuilt although hot restart had already replaced their sessions", rebuilt)
			}
			if n := cbNewSessions(w.newL); n != o.n {
				vrt.Failf("rebuilt-twice", "the new server holds %d sessions for %d pools", n, o.n)
			}
		case o.lose == "server-session":
			if rebuilt != 1 {
				vrt.Failf("wrong-pools-rebuilt", "one session was lost, %d pools were rebuilt", rebuilt)
			}
		case o.lose == "server-down":
			if rebuilt != o.n {
				vrt.Failf("wrong-pools-rebuilt", "the server went down, %d of %d pools were rebuilt", rebuilt, o.n)
			}
		case o.lose == "none":
			if rebuilt != 0 {
				vrt.Failf("wrong-pools-rebuilt", "nothing was lost, %d pools were rebuilt", rebuilt)
			}
		}
		vrt.Outcome(fmt.Sprintf("tags=%s rebuilt=%d calls=%d/%d", string(tags), rebuilt, callOK, callOK+callErrs))
	}
}

// c17FrozenBody: a session is lost and the server process then freezes (its threads stop, its listening socket stays
// open): every rebuild attempt connects and then waits for a handshake answer that never comes. "Calls made in
// between fail with an error rather than hang": GetStream is a local operation and must return at once - for the
// lost pool with an error, for the healthy one with a stream - also while a rebuild attempt is in progress.
func c17FrozenBody() func() {
	return func() {
		w := newHRWorld(2, vrt.Second)
		t0 := vrt.GoProc("lose-and-freeze", 2, func() {
			ss := w.serverSessions(w.oldL)
			if len(ss) > 0 {
				ss[0].Close()
			}
		})
		vrt.WaitThreads(t0)
		vrt.WaitIdle(0)
		vrt.KillProc(2)
		slowest := int64(0)
		calls, errs := 0, 0
		tr := vrt.GoProc("callers", 1, func() {
			for i := 0; i < 12; i++ {
				for pool := 0; pool < 2; pool++ {
					w.sm.count = uint64(pool*sessionRoundRobinThreshold) + 1
					a := vrt.VNow()
					st, err := w.sm.GetStream()
					if d := vrt.VNow() - a; d > slowest {
						slowest = d
					}
					calls++
					if err != nil {
						errs++
					} else if st == nil {
						vrt.Failf("nil-stream", "GetStream returned (nil, nil)")
					} else {
						w.sm.PutBack(st)
					}
				}
				vrt.Sleep(250 * ms)
			}
		})
		vrt.WaitThreads(tr)
		if slowest > int64(100*ms) {
			vrt.Failf("call-hangs", "a GetStream call took %d virtual ms while the replacement of a lost session was being established with a server that does not answer (it must return at once)", slowest/1e6)
		}
		vrt.Outcome(fmt.Sprintf("calls=%d errs=%d slowest=%dms", calls, errs, slowest/1e6))
	}
}

func TestVerif_C17(t *testing.T) {
	if os.Getenv("VERIF_SWEEPLOG") != "" {
		sweepLog = map[string]int{}
		defer func() { fmt.Printf("SWEEPLOG %v\n", sweepLog) }()
	}
	mk := func(o c17Opts, b, bt int) bScenario {
		return bScenario{Name: o.name, Bound: b, BoundT: bt, Body: c17Body(o), Live: true, Racy: o.racy}
	}
	w := newWorker(t, "C17")
	defer w.finish()
	if runMgrHistories(w, "C17", 5, 7) {
		return
	}
	runBScenariosW(w, "C17", []bScenario{
		mk(c17Opts{name: "server-session-lost", n: 1, lose: "server-session", traffic: true}, 1, 2),
		mk(c17Opts{name: "two-pools-one-lost", n: 2, lose: "server-session"}, 1, 2),
		mk(c17Opts{name: "server-down-then-back", n: 1, lose: "server-down", traffic: true}, 1, 2),
		mk(c17Opts{name: "nothing-lost", n: 2, lose: "none", traffic: true}, 1, 2),
		mk(c17Opts{name: "old-server-gone-after-hot-restart", n: 2, lose: "server-down", hotRestart: true}, 1, 2),
		mk(c17Opts{name: "close-manager-vs-loss", n: 1, lose: "server-session", closeSM: true}, 1, 2),
		mk(c17Opts{name: "close-manager-idle", n: 2, lose: "none", closeSM: true, traffic: true}, 1, 2),
		mk(c17Opts{name: "close-manager-during-rebuild", n: 1, lose: "server-session", loseInSetup: true, closeSM: true, closeAfter: 1001 * ms, racy: true}, 1, 2),
		mk(c17Opts{name: "loss-after-failed-hot-restart", n: 2, lose: "server-session", failedHR: true, traffic: true}, 1, 2),
		{Name: "lost-session-server-frozen-callers", Bound: 1, BoundT: 2, Body: c17FrozenBody(), Live: true},
	})
}
