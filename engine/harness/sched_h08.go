//go:build verif

package shmipc

import "testing"

// C08, second part: the stream-history search of sched_hist.go with the pin oracle (zero-copy read results keep their
// contents until released, whatever else happens on the pair - writes in both directions, closes, end-of-stream reads,
// and an adversary that allocates, overwrites and recycles every free buffer at the end of each history).
func TestVerif_H08(t *testing.T) {
	w := newWorker(t, "C08")
	defer w.finish()
	runHistories(w, "C08", 5, 6)
}
