//go:build verif

package shmipc

import (
	"fmt"
	"syscall"
	"testing"

	"github.com/cloudwego/shmipc-go/internal/vrt"
)

// C11 — no stream or session call blocks forever.
//
// Real pair under the scheduler with VIRTUAL time (timers fire when nothing else can run, and — racy-timer mode —
// as a costed alternative at any step, so a deadline can land before or after a racing event). Every scenario
// puts a caller into a blocking call and lets the releasing event race with it; every schedule within the
// deviation bound. Oracles: the execution ends with every call returned (a call that never returns shows up as
// a deadlock of the execution, reported with its schedule); data => nil error; ErrTimeout only when the virtual
// clock has reached the deadline; a closed-stream / session error after close, peer close, session close or peer
// death; virtual completion time within the code's own bound.



type c11Call struct {
	name     string
	err      error
	n        int
	from, to int64 // virtual ns
	returned bool
}

func c11Do(c *c11Call, f func() (int, error)) {
	c.from = vrt.VNow()
	c.n, c.err = f()
	c.to = vrt.VNow()
	c.returned = true
}

func c11Scenarios() []bScenario {
	var scs []bScenario
	add := func(name string, b, bt int, body func()) {
		scs = append(scs, bScenario{Name: name, Bound: b, BoundT: bt, Body: body, Racy: true, Live: true})
	}
	openBoth := func(p *ePair) (*Stream, *Stream) {
		// establish one stream on both ends in the quiet phase (first byte makes the server accept it)
		var cst, sst *Stream
		vrt.Quiet(true)
		tc := vrt.GoProc("open-c", 1, func() {
			cst, _ = p.c.OpenStream()
			cst.BufferWriter().WriteBytes([]byte{0x55})
			cst.Flush(false)
		})
		ts := vrt.GoProc("open-s", 2, func() {
			sst, _ = p.s.AcceptStream()
			sst.BufferReader().ReadBytes(1)
			sst.BufferReader().ReleasePreviousRead()
		})
		vrt.WaitThreads(tc, ts)
		vrt.WaitIdle(0)
		vrt.Quiet(false)
		if cst == nil || sst == nil {
			vrt.Failf("harness", "could not establish the stream")
		}
		return cst, sst
	}
	done := func(calls ...*c11Call) {
		out := ""
		for _, c := range calls {
			if !c.returned {
				vrt.Failf("never-returned", "%s never returned", c.name)
			}
			out += fmt.Sprintf("%s:n=%d,err=%v,t=%dms ", c.name, c.n, c.err, c.to/1e6)
		}
		vrt.Outcome(out)
	}

	add("read-two-messages", 2, 3, func() {
		p := newEPair(pairOpts{})
		cst, sst := openBoth(p)
		rd := &c11Call{name: "ReadBytes(10)"}
		t1 := vrt.GoProc("reader", 2, func() {
			c11Do(rd, func() (int, error) { b, err := sst.BufferReader().ReadBytes(10); return len(b), err })
		})
		t2 := vrt.GoProc("writer", 1, func() { c09Flush(cst, 1, 0, 5); c09Flush(cst, 1, 5, 5) })
		vrt.WaitThreads(t1, t2)
		if rd.err != nil || rd.n != 10 {
			vrt.Failf("read-result", "ReadBytes(10) with 10 bytes flushed returned %d, %v", rd.n, rd.err)
		}
		done(rd)
	})

	add("read-deadline-vs-arrival", 2, 3, func() {
		p := newEPair(pairOpts{})
		cst, sst := openBoth(p)
		rd := &c11Call{name: "ReadBytes(5)/50ms"}
		rd2 := &c11Call{name: "ReadBytes(5)/after"}
		deadline := vrt.VNow() + int64(50*ms)
		t1 := vrt.GoProc("reader", 2, func() {
			sst.SetReadDeadline(vrt.Now().Add(50 * ms))
			c11Do(rd, func() (int, error) { b, err := sst.BufferReader().ReadBytes(5); return len(b), err })
			if rd.err == ErrTimeout {
				// the data still has to be readable afterwards
				sst.SetReadDeadline(zeroTime)
				c11Do(rd2, func() (int, error) { b, err := sst.BufferReader().ReadBytes(5); return len(b), err })
			} else {
				rd2.returned = true
			}
		})
		t2 := vrt.GoProc("writer", 1, func() { vrt.Sleep(40 * ms); c09Flush(cst, 1, 0, 5) })
		vrt.WaitThreads(t1, t2)
		switch rd.err {
		case nil:
			if rd.n != 5 {
				vrt.Failf("read-result", "read returned %d bytes", rd.n)
			}
		case ErrTimeout:
			if rd.to < deadline {
				vrt.Failf("early-timeout", "read timed out at %d ms, deadline %d ms", rd.to/1e6, deadline/1e6)
			}
			if rd2.err != nil || rd2.n != 5 {
				vrt.Failf("read-result", "read after the timeout returned %d, %v", rd2.n, rd2.err)
			}
		default:
			vrt.Failf("read-result", "read with deadline returned %v", rd.err)
		}
		done(rd, rd2)
	})

	add("two-reads-one-deadline", 2, 3, func() {
		p := newEPair(pairOpts{})
		cst, sst := openBoth(p)
		rd1 := &c11Call{name: "ReadBytes(5)#1"}
		rd2 := &c11Call{name: "ReadBytes(5)#2"}
		deadline := vrt.VNow() + int64(50*ms)
		t1 := vrt.GoProc("reader", 2, func() {
			sst.SetReadDeadline(vrt.Now().Add(50 * ms)) // set once, not renewed between the reads
			c11Do(rd1, func() (int, error) { b, err := sst.BufferReader().ReadBytes(5); return len(b), err })
			sst.BufferReader().ReleasePreviousRead()
			c11Do(rd2, func() (int, error) { b, err := sst.BufferReader().ReadBytes(5); return len(b), err })
		})
		t2 := vrt.GoProc("writer", 1, func() { vrt.Sleep(10 * ms); c09Flush(cst, 1, 0, 5) })
		vrt.WaitThreads(t1, t2)
		if rd1.err == ErrTimeout {
			// the deadline passed before the data came (time may pass at any moment): the data then belongs to the second read
			if rd1.to < deadline {
				vrt.Failf("early-timeout", "first read timed out at %d ms, deadline %d ms", rd1.to/1e6, deadline/1e6)
			}
			done(rd1, rd2)
			return
		}
		if rd1.err != nil || rd1.n != 5 {
			vrt.Failf("read-result", "first read returned %d, %v", rd1.n, rd1.err)
		}
		if rd2.err != ErrTimeout {
			vrt.Failf("read-result", "second read under the same deadline, with nothing to read, returned %d, %v", rd2.n, rd2.err)
		}
		if rd2.to < deadline {
			vrt.Failf("early-timeout", "second read timed out at %d ms, deadline %d ms", rd2.to/1e6, deadline/1e6)
		}
		if rd2.to > deadline+int64(20*ms) {
			vrt.Failf("too-late", "second read returned at %d ms, its deadline was %d ms", rd2.to/1e6, deadline/1e6)
		}
		done(rd1, rd2)
	})

	add("read-vs-local-close", 2, 3, func() {
		p := newEPair(pairOpts{})
		_, sst := openBoth(p)
		rd := &c11Call{name: "ReadBytes(5)"}
		t1 := vrt.GoProc("reader", 2, func() {
			c11Do(rd, func() (int, error) { b, err := sst.BufferReader().ReadBytes(5); return len(b), err })
		})
		t2 := vrt.GoLazy("closer", 2, func() { sst.Close() })
		vrt.WaitThreads(t1, t2)
		if !isClosedErr(rd.err) {
			vrt.Failf("read-result", "read released by a local Close returned %v", rd.err)
		}
		done(rd)
	})

	add("read-vs-peer-close", 2, 3, func() {
		p := newEPair(pairOpts{})
		cst, sst := openBoth(p)
		rd := &c11Call{name: "ReadBytes(5)"}
		t1 := vrt.GoProc("reader", 2, func() {
			c11Do(rd, func() (int, error) { b, err := sst.BufferReader().ReadBytes(5); return len(b), err })
		})
		t2 := vrt.GoLazy("peer-closer", 1, func() { cst.Close() })
		vrt.WaitThreads(t1, t2)
		if rd.err != ErrEndOfStream {
			vrt.Failf("read-result", "read released by the peer's close returned %v", rd.err)
		}
		done(rd)
	})

	add("read-vs-session-close", 2, 3, func() {
		p := newEPair(pairOpts{})
		_, sst := openBoth(p)
		rd := &c11Call{name: "ReadBytes(5)"}
		t1 := vrt.GoProc("reader", 2, func() {
			c11Do(rd, func() (int, error) { b, err := sst.BufferReader().ReadBytes(5); return len(b), err })
		})
		t2 := vrt.GoLazy("session-closer", 2, func() { p.s.Close() })
		vrt.WaitThreads(t1, t2)
		if rd.err == nil || rd.err == ErrTimeout {
			vrt.Failf("read-result", "read released by Session.Close returned %v", rd.err)
		}
		done(rd)
	})

	add("read-and-flush-vs-peer-death", 2, 3, func() {
		p := newEPair(pairOpts{})
		cst, _ := openBoth(p)
		rd := &c11Call{name: "ReadBytes(5)"}
		t1 := vrt.GoProc("reader", 1, func() {
			c11Do(rd, func() (int, error) { b, err := cst.BufferReader().ReadBytes(5); return len(b), err })
		})
		t2 := vrt.GoLazy("killer", 0, func() { p.killProc(2) })
		vrt.WaitThreads(t1, t2)
		if rd.err == nil || rd.err == ErrTimeout {
			vrt.Failf("read-result", "read while the peer process died returned %v", rd.err)
		}
		vrt.WaitIdle(vrt.Second)
		if !p.c.IsClosed() {
			vrt.Failf("not-closed", "the peer died; the surviving session is not closed")
		}
		done(rd)
	})

	// (a Stream.Close from another goroutine while Flush waits is not a C11 releasing event: the stream API is not
	// safe for a Close concurrent with a Flush of the same stream - see DESIGN.md section 9; Session.Close and peer
	// death racing with a waiting Flush are C14 scenarios)
	for _, variant := range []string{"plain", "write-deadline"} {
		variant := variant
		add("flush-queue-full-peer-stalled-"+variant, 2, 3, func() {
			p := newEPair(pairOpts{QueueCap: 1})
			cst, _ := openBoth(p)
			p.router.paused[2] = true // the peer stops consuming
			f1 := &c11Call{name: "Flush#1"}
			f2 := &c11Call{name: "Flush#2"}
			start := vrt.VNow()
			ths := []*vrt.Thread{vrt.GoProc("writer", 1, func() {
				c11Do(f1, func() (int, error) { return 0, c09Flush(cst, 1, 0, 5) })
				if variant == "write-deadline" {
					cst.SetWriteDeadline(vrt.Now().Add(35 * ms))
				}
				c11Do(f2, func() (int, error) { return 0, c09Flush(cst, 1, 5, 5) })
			})}
			if variant == "close-meanwhile" {
				ths = append(ths, vrt.GoProc("closer", 1, func() { vrt.Sleep(25 * ms); cst.Close() }))
			}
			vrt.WaitThreads(ths...)
			if f1.err != nil {
				vrt.Failf("flush-result", "first flush into an empty queue returned %v", f1.err)
			}
			switch variant {
			case "plain":
				if f2.err != ErrQueueFull {
					vrt.Failf("flush-result", "flush into a queue that stays full returned %v", f2.err)
				}
			case "write-deadline":
				if f2.err != ErrTimeout && f2.err != ErrQueueFull {
					vrt.Failf("flush-result", "flush with a write deadline returned %v", f2.err)
				}
				if f2.err == ErrTimeout && f2.to < f2.from+int64(35*ms) {
					vrt.Failf("early-timeout", "flush timed out %d ms after it started, deadline 35 ms", (f2.to-f2.from)/1e6)
				}
			case "close-meanwhile":
				if f2.err != ErrStreamClosed && f2.err != ErrQueueFull {
					vrt.Failf("flush-result", "flush with a Close meanwhile returned %v", f2.err)
				}
			}
			if f2.to-start > int64(200*ms) {
				vrt.Failf("too-late", "flush returned after %d ms (10 retries of 10 ms expected at most)", (f2.to-start)/1e6)
			}
			done(f1, f2)
		})
	}

	add("accept-vs-session-close", 2, 3, func() {
		p := newEPair(pairOpts{})
		ac := &c11Call{name: "AcceptStream"}
		t1 := vrt.GoProc("acceptor", 2, func() {
			c11Do(ac, func() (int, error) { _, err := p.s.AcceptStream(); return 0, err })
		})
		t2 := vrt.GoLazy("session-closer", 2, func() { p.s.Close() })
		vrt.WaitThreads(t1, t2)
		if ac.err == nil {
			vrt.Failf("accept-result", "AcceptStream on a closed session returned a stream")
		}
		done(ac)
	})

	add("fallback-send-vs-session-close", 2, 3, func() {
		p := newEPair(pairOpts{FreeSmall: 2})
		cst, _ := openBoth(p)
		fl := &c11Call{name: "Flush(fallback)"}
		t1 := vrt.GoProc("writer", 1, func() {
			c11Do(fl, func() (int, error) { return 0, c09Flush(cst, 1, 0, 100) })
		})
		t2 := vrt.GoLazy("session-closer", 1, func() { p.c.Close() })
		vrt.WaitThreads(t1, t2)
		if fl.to-fl.from > int64(11*vrt.Second) {
			vrt.Failf("too-late", "fallback flush took %d ms", (fl.to-fl.from)/1e6)
		}
		done(fl)
	})
	// a read blocked INSIDE a data callback (OnData asks for more bytes than have arrived - a length-prefixed request
	// that comes in two pieces): the same releasing events must release it
	for _, ev := range []string{"more-data", "session-close", "peer-death", "peer-close", "peer-session-close", "local-close"} {
		ev := ev
		add("callback-read-vs-"+ev, 2, 3, func() {
			rd := &c11Call{name: "OnData:ReadBytes(10)"}
			var sst *Stream
			lcb := &listenCB{}
			lcb.onNew = func(s *Stream) {
				sst = s
				rc := &recordingCallbacks{st: s}
				rc.onData = func(r BufferReader) {
					if rd.returned {
						r.ReadBytes(r.Len())
						return
					}
					c11Do(rd, func() (int, error) { b, err := r.ReadBytes(10); return len(b), err })
				}
				s.SetCallbacks(rc)
			}
			p := newEPair(pairOpts{ListenCB: lcb})
			var cst *Stream
			vrt.Quiet(true)
			t0 := vrt.GoProc("open-c", 1, func() {
				cst, _ = p.c.OpenStream()
				c09Flush(cst, 1, 0, 5)
			})
			vrt.WaitThreads(t0)
			vrt.WaitIdle(0)
			vrt.Quiet(false)
			if sst == nil || rd.from == 0 && rd.returned {
				vrt.Failf("harness", "the server's callback did not start")
			}
			var t2 *vrt.Thread
			switch ev {
			case "more-data":
				t2 = vrt.GoLazy("writer", 1, func() { c09Flush(cst, 1, 5, 5) })
			case "session-close":
				t2 = vrt.GoLazy("session-closer", 2, func() { p.s.Close() })
			case "peer-session-close":
				t2 = vrt.GoLazy("peer-session-closer", 1, func() { p.c.Close() })
			case "peer-death":
				t2 = vrt.GoLazy("killer", 0, func() { p.killProc(1) })
			case "peer-close":
				t2 = vrt.GoLazy("peer-closer", 1, func() { cst.Close() })
			case "local-close":
				t2 = vrt.GoLazy("local-closer", 2, func() { sst.Close() })
			}
			vrt.WaitThreads(t2)
			vrt.WaitIdle(2 * vrt.Second)
			if !rd.returned {
				vrt.Failf("never-returned", "a ReadBytes blocked inside OnData was not released by %s", ev)
			}
			switch ev {
			case "more-data":
				if rd.err != nil || rd.n != 10 {
					vrt.Failf("read-result", "read inside OnData with 10 bytes flushed returned %d, %v", rd.n, rd.err)
				}
			case "peer-close":
				if rd.err != ErrEndOfStream {
					vrt.Failf("read-result", "read inside OnData released by the peer's close returned %v", rd.err)
				}
			default:
				if rd.err == nil || rd.err == ErrTimeout {
					vrt.Failf("read-result", "read inside OnData released by %s returned %v", ev, rd.err)
				}
			}
			done(rd)
		})
	}
	// the peer is alive but has stopped reading the control connection: a message that goes over the socket stalls on a
	// full socket buffer and must give up after ConnectionWriteTimeout (the same for a close that has to use the socket)
	for _, what := range []string{"flush", "close"} {
		what := what
		add("fallback-"+what+"-peer-stopped-reading", 1, 2, func() {
			p := newEPair(pairOpts{FreeSmall: 2, WriteTO: 500 * ms})
			cst, _ := openBoth(p)
			if err := syscall.SetsockoptInt(p.c.connFd, syscall.SOL_SOCKET, syscall.SO_SNDBUF, 4096); err != nil {
				vrt.Failf("harness", "SO_SNDBUF: %v", err)
			}
			p.router.paused[2] = true
			fl := &c11Call{name: "Flush(64KiB by socket)"}
			cl := &c11Call{name: "Close(fallback stream)"}
			cl.returned = true
			t1 := vrt.GoProc("writer", 1, func() {
				if what == "close" {
					// put the stream into fallback state with a small message first, then fill the socket from another stream
					c09Flush(cst, 1, 0, 100)
					st2, err := p.c.OpenStream()
					if err != nil {
						vrt.Failf("harness", "open: %v", err)
					}
					c11Do(fl, func() (int, error) { return 0, c09Flush(st2, 2, 0, 64<<10) })
					cl.returned = false
					c11Do(cl, func() (int, error) { return 0, cst.Close() })
					return
				}
				c11Do(fl, func() (int, error) { return 0, c09Flush(cst, 1, 0, 64<<10) })
			})
			vrt.WaitThreads(t1)
			for _, c := range []*c11Call{fl, cl} {
				if c.returned && c.from != 0 && c.to-c.from > int64(500*ms)+int64(100*ms) {
					vrt.Failf("too-late", "%s returned after %d ms, ConnectionWriteTimeout is 500 ms", c.name, (c.to-c.from)/1e6)
				}
			}
			if fl.err == nil {
				vrt.Failf("flush-result", "64 KiB written to a 4 KiB socket buffer nobody reads: Flush returned nil")
			}
			done(fl, cl)
		})
	}
	// the connection breaks while another goroutine of the survivor is inside GetMetrics (which holds the session's
	// shutdown lock for a moment): the blocked read and AcceptStream must be released all the same
	add("read-and-accept-vs-peer-death-during-getmetrics", 1, 2, func() {
		p := newEPair(pairOpts{})
		cst, _ := openBoth(p)
		rd := &c11Call{name: "ReadBytes(5)"}
		ac := &c11Call{name: "AcceptStream"}
		t1 := vrt.GoProc("reader", 1, func() {
			c11Do(rd, func() (int, error) { b, err := cst.BufferReader().ReadBytes(5); return len(b), err })
		})
		t3 := vrt.GoProc("acceptor", 1, func() {
			c11Do(ac, func() (int, error) { _, err := p.c.AcceptStream(); return 0, err })
		})
		t4 := vrt.GoProc("metrics", 1, func() {
			for i := 0; i < 2; i++ {
				p.c.GetMetrics()
			}
		})
		t2 := vrt.GoLazy("killer", 0, func() { p.killProc(2) })
		vrt.WaitThreads(t1, t2, t3, t4)
		if rd.err == nil || rd.err == ErrTimeout {
			vrt.Failf("read-result", "read while the peer process died returned %v", rd.err)
		}
		if ac.err == nil {
			vrt.Failf("accept-result", "AcceptStream after the peer died returned a stream")
		}
		vrt.WaitIdle(vrt.Second)
		if !p.c.IsClosed() {
			vrt.Failf("not-closed", "the peer died; the surviving session is not closed")
		}
		done(rd, ac)
	})
	return scs
}

func TestVerif_C11(t *testing.T) { runBScenarios(t, "C11", c11Scenarios()) }
