//go:build verif

package shmipc

import (
	"bytes"
	"encoding/json"
	"fmt"
	"os"
	"runtime"
	"testing"
	"time"

	syscall "golang.org/x/sys/unix"

	"github.com/cloudwego/shmipc-go/internal/vrt"
)

// C18 (kernel-IO part) — the event connection moves bytes exactly once and in order under any kernel IO.
//
// Sequential bounded-exhaustive enumeration on the REAL connEventHandler over a real socketpair.
// Read side: sequences of <= 3 messages with sizes from a boundary menu (around the 64 KiB initial buffer, its
// doublings, the 1 MiB flush threshold and the 4 MiB shrink threshold) are written in chunks from a chunk menu;
// after every chunk the harness calls the real onReadReady (what the epoll loop does); the callback checks that
// it is shown exactly the unconsumed bytes followed by the new ones (contents are a function of the stream
// position) and consumes according to a pattern {everything, complete messages only, header then rest, all but
// one byte, nothing until everything arrived}. Oracle: every callback view is correct and every byte is consumed
// exactly once, in order.
// Write side: the real write / writev push messages through a socket with a minimal send buffer (so the kernel
// produces partial writes and EAGAIN) while the harness drains the peer end in chunks of a menu and signals
// onWriteReady as the epoll loop would; oracle: the peer receives exactly the bytes written, in order.

type c18Case struct {
	Kind    string `json:"kind"` // read | write | writev | readbfs
	Path    []c18Op `json:"path,omitempty"`
	Sizes   []int  `json:"sizes"`
	Chunk   int    `json:"chunk"`
	Pattern string `json:"pattern"`
	SndBuf  int    `json:"sndbuf"`
	Drain   int    `json:"drain"`
}

func c18Byte(i int) byte { return byte(i*31 + (i>>8)*7 + (i>>16)*3 + 5) }

type c18CB struct {
	c        *c18Case
	consumed int // stream position consumed so far
	seen     int // highest stream position shown so far
	total    int
	bounds   []int // message boundaries (cumulative)
	viol     string
	calls    int
}

func (cb *c18CB) onRemoteClose() {}
func (cb *c18CB) onLocalClose()  {}
func (cb *c18CB) onEventData(buf []byte, conn eventConn) error {
	cb.calls++
	if cb.viol != "" {
		conn.commitRead(len(buf))
		return nil
	}
	// the view must start at the first unconsumed byte and extend at least to what was shown before
	if cb.consumed+len(buf) < cb.seen {
		cb.viol = fmt.Sprintf("callback %d was shown %d bytes from position %d, but bytes up to position %d had been shown before (unconsumed bytes lost)", cb.calls, len(buf), cb.consumed, cb.seen)
		return nil
	}
	for i, b := range buf {
		if b != c18Byte(cb.consumed+i) {
			cb.viol = fmt.Sprintf("callback %d: byte %d of the view (stream position %d) is %#x, written %#x", cb.calls, i, cb.consumed+i, b, c18Byte(cb.consumed+i))
			return nil
		}
	}
	if cb.consumed+len(buf) > cb.seen {
		cb.seen = cb.consumed + len(buf)
	}
	n := 0
	switch cb.c.Pattern {
	case "all":
		n = len(buf)
	case "messages":
		for _, b := range cb.bounds {
			if b > cb.consumed && b <= cb.consumed+len(buf) {
				n = b - cb.consumed
			}
		}
	case "header-then-rest":
		if cb.calls%2 == 1 && len(buf) >= 8 {
			n = 8
		} else {
			n = len(buf)
		}
	case "all-but-one":
		n = len(buf) - 1
		if cb.consumed+len(buf) == cb.total {
			n = len(buf)
		}
	case "nothing-until-complete":
		if cb.consumed+len(buf) == cb.total {
			n = len(buf)
		}
	}
	conn.commitRead(n)
	cb.consumed += n
	return nil
}

func c18NewConn(sndbuf int) (*connEventHandler, *epollDispatcher, int) {
	fds, err := syscall.Socketpair(syscall.AF_UNIX, syscall.SOCK_STREAM, 0)
	if err != nil {
		panic(err)
	}
	syscall.SetNonblock(fds[0], true)
	syscall.SetNonblock(fds[1], true)
	if sndbuf > 0 {
		syscall.SetsockoptInt(fds[0], syscall.SOL_SOCKET, syscall.SO_SNDBUF, sndbuf)
		syscall.SetsockoptInt(fds[1], syscall.SOL_SOCKET, syscall.SO_SNDBUF, sndbuf)
	}
	d := newEpollDispatcher()
	d.epollFd, _ = syscall.EpollCreate1(0)
	file := os.NewFile(uintptr(fds[0]), "c18")
	c := d.newConnection(file).(*connEventHandler)
	return c, d, fds[1]
}

func c18Close(c *connEventHandler, d *epollDispatcher, peer int) {
	syscall.Close(peer)
	c.file.Close()
	syscall.Close(d.epollFd)
}

func c18RunRead(cs c18Case) (viol string, calls int) {
	defer func() {
		if r := recover(); r != nil {
			viol = fmt.Sprintf("panic: %v", r)
		}
	}()
	c, d, peer := c18NewConn(0)
	defer c18Close(c, d, peer)
	cb := &c18CB{c: &cs}
	for _, s := range cs.Sizes {
		cb.total += s
		cb.bounds = append(cb.bounds, cb.total)
	}
	c.callback = cb
	data := make([]byte, cb.total)
	for i := range data {
		data[i] = c18Byte(i)
	}
	sent := 0
	for sent < len(data) {
		end := sent + cs.Chunk
		if end > len(data) {
			end = len(data)
		}
		// write one chunk (the socket may take only part of it: then the reader runs first, as with a real peer)
		for sent < end {
			n, err := syscall.Write(peer, data[sent:end])
			if err == syscall.EAGAIN {
				c.onReadReady()
				continue
			}
			if err != nil {
				return "socket write: " + err.Error(), cb.calls
			}
			sent += n
		}
		if err := c.onReadReady(); err != nil {
			return "onReadReady: " + err.Error(), cb.calls
		}
		if cb.viol != "" {
			return cb.viol, cb.calls
		}
	}
	// patterns that leave a remainder are given the chance a later event would give them
	for i := 0; i < 4 && cb.consumed < cb.total; i++ {
		c.onReadReady()
	}
	if cb.viol != "" {
		return cb.viol, cb.calls
	}
	if cb.consumed != cb.total {
		return fmt.Sprintf("%d of %d bytes were consumed (%d shown)", cb.consumed, cb.total, cb.seen), cb.calls
	}
	return "", cb.calls
}

func c18RunWrite(cs c18Case) (viol string, calls int) {
	defer func() {
		if r := recover(); r != nil {
			viol = fmt.Sprintf("panic: %v", r)
		}
	}()
	c, d, peer := c18NewConn(cs.SndBuf)
	defer c18Close(c, d, peer)
	c.callback = &c18CB{c: &cs}
	total := 0
	var msgs [][]byte
	for _, s := range cs.Sizes {
		m := make([]byte, s)
		for i := range m {
			m[i] = c18Byte(total + i)
		}
		total += s
		msgs = append(msgs, m)
	}
	done := make(chan error, 1)
	go func() {
		if cs.Kind == "writev" {
			done <- c.writev(msgs...)
			return
		}
		for _, m := range msgs {
			if err := c.write(m); err != nil {
				done <- err
				return
			}
		}
		done <- nil
	}()
	got := 0
	buf := make([]byte, cs.Drain)
	finished := false
	var werr error
	for got < total {
		n, err := syscall.Read(peer, buf)
		if n > 0 {
			for i := 0; i < n; i++ {
				if buf[i] != c18Byte(got+i) {
					return fmt.Sprintf("peer received %#x at stream position %d, written %#x (bytes lost, repeated or reordered)", buf[i], got+i, c18Byte(got+i)), calls
				}
			}
			got += n
			calls++
			c.onWriteReady() // the epoll loop reports the socket writable again
			continue
		}
		if err == syscall.EAGAIN {
			if finished {
				break
			}
			select {
			case werr = <-done:
				finished = true
			default:
				c.onWriteReady()
				// let the writer goroutine run
				runtime.Gosched()
				time.Sleep(20 * time.Microsecond)
			}
			continue
		}
		if err != nil {
			return "socket read: " + err.Error(), calls
		}
		if n == 0 {
			break
		}
	}
	if !finished {
		werr = <-done
	}
	if werr != nil {
		return fmt.Sprintf("write returned %v", werr), calls
	}
	if got != total {
		return fmt.Sprintf("peer received %d of %d bytes", got, total), calls
	}
	// nothing beyond what was written
	if n, _ := syscall.Read(peer, buf); n > 0 {
		return fmt.Sprintf("peer received %d extra bytes", n), calls
	}
	return "", calls
}

func c18Cases(thorough bool) []c18Case {
	var out []c18Case
	sizes := []int{1, 8, 65535, 65536, 65537, 131073}
	if thorough {
		sizes = append(sizes, 1<<20, 1<<20+1, 4<<20+1)
	}
	chunks := []int{1 << 30, 7, 4096, 65536, 100000}
	patterns := []string{"all", "messages", "header-then-rest", "all-but-one", "nothing-until-complete"}
	var seqs [][]int
	for _, a := range sizes {
		seqs = append(seqs, []int{a})
		for _, b := range sizes {
			seqs = append(seqs, []int{a, b})
			if !thorough && !(a <= 8 || b <= 8) {
				continue
			}
			for _, c := range sizes {
				if !thorough && c > 65537 {
					continue
				}
				seqs = append(seqs, []int{a, b, c})
			}
		}
	}
	if !thorough {
		seqs = append(seqs, []int{4<<20 + 1}, []int{8, 4<<20 + 1, 1}, []int{1 << 20, 8}, []int{1<<20 + 1, 1<<20 + 1})
	}
	for _, s := range seqs {
		tot := 0
		for _, x := range s {
			tot += x
		}
		for _, ch := range chunks {
			if ch == 7 && tot > 70000 {
				continue // 7-byte chunks only for short streams (run time)
			}
			for _, p := range patterns {
				out = append(out, c18Case{Kind: "read", Sizes: s, Chunk: ch, Pattern: p})
			}
		}
	}
	wsizes := [][]int{{1}, {8}, {4096}, {65536}, {200000}, {8, 8, 8}, {8, 70000, 8}, {70000, 70000}, {1, 200000, 1}}
	if thorough {
		wsizes = append(wsizes, []int{1 << 20}, []int{8, 1 << 20, 8, 1 << 20})
	}
	for _, s := range wsizes {
		for _, sb := range []int{0, 1, 4096, 32768} {
			for _, dr := range []int{1 << 20, 100, 4096, 30000} {
				tot := 0
				for _, x := range s {
					tot += x
				}
				if dr == 100 && tot > 100000 {
					continue
				}
				out = append(out, c18Case{Kind: "write", Sizes: s, SndBuf: sb, Drain: dr})
				out = append(out, c18Case{Kind: "writev", Sizes: s, SndBuf: sb, Drain: dr})
			}
		}
	}
	return out
}

func c18Run(cs c18Case) (string, int) {
	if cs.Kind == "read" {
		return c18RunRead(cs)
	}
	if cs.Kind == "readbfs" {
		v, _, calls := c18RunPath(cs.Path)
		return v, calls
	}
	return c18RunWrite(cs)
}

// ---- read side, explicit-state search -------------------------------------------------------------------------
//
// The fixed patterns above keep one consumption habit for a whole stream. The read buffer's behaviour depends on
// its HISTORY (a buffer that grew to 8 MiB and was halved again keeps its capacity; a partly consumed buffer has a
// non-zero start offset), so the second search is over operation sequences from every reachable buffer state:
// breadth first, each transition = "the peer writes f bytes and the epoll loop reports them, the callback consumes
// according to p" on the REAL handler, successor states computed by replaying the shortest path on a fresh handler
// plus one operation. States are merged on exactly what the handler's branches look at: len and cap/len of the
// read buffer, start offset zero or not, end offset at the end of the buffer or not, and the class of the number
// of unconsumed bytes (0, 1, < 64 KiB, < 1 MiB (the early-callback threshold), more).
// Oracle in every callback of every transition: the view is exactly stream[consumed : consumed+len(view)], it
// reaches at least as far as any earlier view, and once the operation is over it reaches the last byte written.

type c18Op struct {
	Feed   string `json:"feed"`
	Policy string `json:"policy"`
}

var c18Feeds = []string{"1", "1000", "toEnd", "toEnd+1", "4M+64K"}
var c18Policies = []string{"all", "none", "half", "all-but-one"}

const c18MaxStream = 40 << 20

var c18Stream []byte

func c18StreamInit() {
	if c18Stream != nil {
		return
	}
	c18Stream = make([]byte, c18MaxStream+1)
	for i := range c18Stream {
		c18Stream[i] = c18Byte(i)
	}
}

type c18PathCB struct {
	policy   string
	consumed int
	seen     int
	viol     string
	calls    int
}

func (cb *c18PathCB) onRemoteClose() {}
func (cb *c18PathCB) onLocalClose()  {}
func (cb *c18PathCB) onEventData(buf []byte, conn eventConn) error {
	cb.calls++
	if cb.viol != "" {
		conn.commitRead(len(buf))
		return nil
	}
	if cb.consumed+len(buf) < cb.seen {
		cb.viol = fmt.Sprintf("callback %d was shown %d bytes from position %d, but bytes up to position %d had been shown before (unconsumed bytes lost)", cb.calls, len(buf), cb.consumed, cb.seen)
		return nil
	}
	if cb.consumed+len(buf) > len(c18Stream) || !bytes.Equal(buf, c18Stream[cb.consumed:cb.consumed+len(buf)]) {
		at := -1
		for i, b := range buf {
			if cb.consumed+i >= len(c18Stream) || b != c18Stream[cb.consumed+i] {
				at = i
				break
			}
		}
		cb.viol = fmt.Sprintf("callback %d: the view (%d bytes) does not start at the first unconsumed byte (stream position %d): byte %d of the view differs from what was written there (bytes repeated, lost or reordered)", cb.calls, len(buf), cb.consumed, at)
		return nil
	}
	if cb.consumed+len(buf) > cb.seen {
		cb.seen = cb.consumed + len(buf)
	}
	n := 0
	switch cb.policy {
	case "all":
		n = len(buf)
	case "half":
		n = len(buf) / 2
	case "all-but-one":
		n = len(buf) - 1
		if n < 0 {
			n = 0
		}
	}
	conn.commitRead(n)
	cb.consumed += n
	return nil
}

func c18StateKey(c *connEventHandler) string {
	pend := c.readEndOff - c.readStartOff
	cls := "0"
	switch {
	case pend == 0:
	case pend == 1:
		cls = "1"
	case pend < 64<<10:
		cls = "<64K"
	case pend < 1<<20:
		cls = "<1M"
	default:
		cls = ">=1M"
	}
	return fmt.Sprintf("len=%d cap/len=%d start>0=%v atEnd=%v pending=%s", len(c.readBuffer), cap(c.readBuffer)/len(c.readBuffer), c.readStartOff > 0, c.readEndOff == len(c.readBuffer), cls)
}

// c18RunPath replays a path on a fresh real handler. key == "" when the last operation is not enabled (it would
// take the stream past the bound).
func c18RunPath(path []c18Op) (viol string, key string, calls int) {
	defer func() {
		if r := recover(); r != nil {
			viol = fmt.Sprintf("panic: %v", r)
		}
	}()
	c18StreamInit()
	c, d, peer := c18NewConn(0)
	defer c18Close(c, d, peer)
	cb := &c18PathCB{}
	c.callback = cb
	sent := 0
	for k, op := range path {
		f := 0
		switch op.Feed {
		case "1":
			f = 1
		case "1000":
			f = 1000
		case "toEnd":
			f = len(c.readBuffer) - c.readEndOff
		case "toEnd+1":
			f = len(c.readBuffer) - c.readEndOff + 1
		case "4M+64K":
			f = 4<<20 + 64<<10
		}
		if f == 0 || sent+f > c18MaxStream {
			return "", "", cb.calls
		}
		cb.policy = op.Policy
		end := sent + f
		for sent < end {
			pe := sent + 96<<10
			if pe > end {
				pe = end
			}
			for sent < pe {
				n, err := syscall.Write(peer, c18Stream[sent:pe])
				if err == syscall.EAGAIN {
					c.onReadReady()
					continue
				}
				if err != nil {
					return "socket write: " + err.Error(), "", cb.calls
				}
				sent += n
			}
			if err := c.onReadReady(); err != nil {
				return "onReadReady: " + err.Error(), "", cb.calls
			}
			if cb.viol != "" {
				return fmt.Sprintf("operation %d %+v: %s", k+1, op, cb.viol), "", cb.calls
			}
		}
		if cb.seen != sent {
			return fmt.Sprintf("operation %d %+v: %d bytes were written and reported readable, the callback was shown the stream up to position %d only", k+1, op, sent, cb.seen), "", cb.calls
		}
	}
	return "", c18StateKey(c), cb.calls
}

type c18Level struct {
	States []c18Found `json:"states"`
	Trans  int64      `json:"trans"`
	Calls  int64      `json:"calls"`
	Viol   string     `json:"viol,omitempty"`
	VPath  []c18Op    `json:"vpath,omitempty"`
}

type c18Found struct {
	Key  string  `json:"key"`
	Path []c18Op `json:"path"`
}

// c18BFS: the workers of one run share the search: at each level worker i expands the frontier states with
// index % n == i, writes what it found next to the others' files and waits for theirs (the merge is deterministic:
// frontier order, then operation order).
func c18BFS(w *worker, depth int) *vrt.Result {
	res := &vrt.Result{Name: "c18/read-bfs", Exhaustive: true, Outcomes: map[string]int64{}, Counts: map[string]int64{}, FailCount: map[string]int64{}}
	dir := os.Getenv("VERIF_SCRATCH")
	if dir == "" {
		dir = os.TempDir()
	}
	dir = fmt.Sprintf("%s/c18bfs.%s", dir, w.tier)
	os.MkdirAll(dir, 0o755)
	_, k0, _ := c18RunPath(nil)
	seen := map[string]bool{k0: true}
	frontier := []c18Found{{Key: k0}}
	for level := 1; level <= depth && len(frontier) > 0; level++ {
		mine := c18Level{}
		for i, st := range frontier {
			if i%w.shardN != w.shardI || mine.Viol != "" {
				continue
			}
			for _, f := range c18Feeds {
				for _, p := range c18Policies {
					path := append(append([]c18Op{}, st.Path...), c18Op{f, p})
					v, key, calls := c18RunPath(path)
					if v == "" && key == "" {
						continue
					}
					mine.Trans++
					mine.Calls += int64(calls)
					if v != "" && mine.Viol == "" {
						mine.Viol, mine.VPath = v, path
					}
					if v == "" {
						mine.States = append(mine.States, c18Found{key, path})
					}
				}
			}
		}
		b, _ := json.Marshal(mine)
		tmp := fmt.Sprintf("%s/L%d.%d.tmp", dir, level, w.shardI)
		os.WriteFile(tmp, b, 0o644)
		os.Rename(tmp, fmt.Sprintf("%s/L%d.%d.json", dir, level, w.shardI))
		var next []c18Found
		for i := 0; i < w.shardN; i++ {
			var lv c18Level
			for {
				b, err := os.ReadFile(fmt.Sprintf("%s/L%d.%d.json", dir, level, i))
				if err == nil && json.Unmarshal(b, &lv) == nil {
					break
				}
				if w.expired() {
					res.Exhaustive, res.CapHit = false, "deadline (waiting for the other workers' part of the level)"
					return res
				}
				time.Sleep(5 * time.Millisecond)
			}
			if w.shardI == 0 {
				res.Transitions += lv.Trans
				res.Execs += lv.Trans
				res.Counts["callbacks"] += lv.Calls
			}
			if lv.Viol != "" && len(res.Failures) == 0 && w.shardI == 0 {
				res.FailCount["kernel-io-readbfs"]++
				cs := c18Case{Kind: "readbfs", Path: lv.VPath}
				res.Failures = append(res.Failures, &vrt.Failure{Kind: "oracle", Sig: "kernel-io-readbfs", Msg: fmt.Sprintf("%+v: %s", lv.VPath, lv.Viol), Params: cs})
			}
			for _, s := range lv.States {
				if !seen[s.Key] {
					seen[s.Key] = true
					next = append(next, s)
				}
			}
		}
		frontier = next
		if w.shardI == 0 {
			res.Counts[fmt.Sprintf("new-states-level-%d", level)] = int64(len(next))
		}
		if w.expired() {
			res.Exhaustive, res.CapHit = false, fmt.Sprintf("deadline after level %d", level)
			break
		}
	}
	if w.shardI == 0 {
		res.States = int64(len(seen))
		for k := range seen {
			res.Outcomes[k] = 1
		}
		res.Counts["frontier-left-at-depth-bound"] = int64(len(frontier))
	}
	return res
}

func TestVerif_C18(t *testing.T) {
	w := newWorker(t, "C18")
	defer w.finish()
	SetLogLevel(levelNoPrint)
	if w.replay != nil {
		var cs c18Case
		if err := json.Unmarshal(w.replay.Params, &cs); err != nil {
			t.Fatalf("replay params: %v", err)
		}
		for i := 0; i < 5; i++ {
			v, _ := c18Run(cs)
			sig := ""
			if v != "" {
				sig = "kernel-io-" + cs.Kind
			}
			fmt.Printf("REPLAY run=%d scenario=c18/kernel-io steps=0 fail_sig=%q msg=%q\n", i, sig, v)
		}
		return
	}
	res := &vrt.Result{Name: "c18/kernel-io", Exhaustive: true, Outcomes: map[string]int64{}, Counts: map[string]int64{}, FailCount: map[string]int64{}}
	for i, cs := range c18Cases(w.thorough()) {
		if i%w.shardN != w.shardI {
			continue
		}
		if w.expired() {
			res.Exhaustive, res.CapHit = false, "deadline"
			break
		}
		v, calls := c18Run(cs)
		res.Execs++
		res.Transitions += int64(calls)
		res.Outcomes[cs.Kind+"/"+cs.Pattern]++
		if v != "" {
			sig := "kernel-io-" + cs.Kind
			res.FailCount[sig]++
			if res.FailCount[sig] == 1 {
				res.Failures = append(res.Failures, &vrt.Failure{Kind: "oracle", Sig: sig, Msg: fmt.Sprintf("%+v: %s", cs, v), Params: cs})
			}
		}
		if len(w.out.Samples) < 2 && i%97 == 0 {
			w.out.Samples = append(w.out.Samples, cs)
		}
	}
	res.States = int64(len(res.Outcomes))
	w.out.Scenarios = append(w.out.Scenarios, &scenarioResult{Name: "c18/kernel-io", Result: res})
	depth := 5
	if w.thorough() {
		depth = 7
	}
	w.out.Scenarios = append(w.out.Scenarios, &scenarioResult{Name: "c18/read-bfs", Result: c18BFS(w, depth)})
}
