//go:build verif

package shmipc

import (
	"fmt"
	"strings"
	"path/filepath"
	"sort"
	"testing"
	"io"
	"net"
	"os"
	"strconv"
	"unsafe"

	syscall2 "syscall"

	syscall "golang.org/x/sys/unix"

	"github.com/cloudwego/shmipc-go/internal/vrt"
)

// E-pair: two sessions ("process A" = client, proc tag 1; "process B" = server, proc tag 2) created by the REAL
// newSession on the two ends of a real AF_UNIX socketpair, under the controlled scheduler. The real handshake,
// real memfd mappings, real epoll registration and the real connEventHandler run; only the body of the epoll loop
// goroutine is replaced by a scheduler thread per process (vLoop) that is schedulable when the real epoll
// descriptor is readable or a lambda is posted, and then does exactly what epollDispatcher.runLoop does.

type vRouter struct {
	d      map[int]*epollDispatcher
	loops  map[int]*vrt.Thread
	stop   bool
	paused map[int]bool // a process whose event loop is not scheduled (a peer that stopped consuming)
}

func newVRouter() *vRouter {
	return &vRouter{d: map[int]*epollDispatcher{}, loops: map[int]*vrt.Thread{}, paused: map[int]bool{}}
}

func (r *vRouter) runLoop() error  { return nil }
func (r *vRouter) shutdown() error { return nil }
func (r *vRouter) post(f func())   { r.of().post(f) }
func (r *vRouter) newConnection(f *os.File) eventConn {
	return r.of().newConnection(f)
}

func (r *vRouter) of() *epollDispatcher {
	proc := 0
	if t := vrt.Cur(); t != nil {
		proc = t.Proc
	}
	if d := r.d[proc]; d != nil {
		return d
	}
	d := newEpollDispatcher()
	fd, err := syscall.EpollCreate1(0)
	if err != nil {
		panic("epoll_create1: " + err.Error())
	}
	d.epollFd = fd
	r.d[proc] = d
	t := vrt.GoDaemon("loop"+strconv.Itoa(proc), func() { r.loop(d) })
	t.Proc = proc
	r.loops[proc] = t
	return d
}

// loop mirrors the goroutine body of epollDispatcher.runLoop: wait for events, dispatch them under d.lock, run the
// posted lambdas. "Wait" is a scheduling point that is enabled when epoll has something or a lambda is pending.
func (r *vRouter) loop(d *epollDispatcher) {
	var events [128]epollEvent
	proc := vrt.Cur().Proc
	for {
		vrt.Point("epoll_wait", func() bool {
			if r.paused[proc] {
				return false
			}
			return r.stop || len(d.pendingLambda) > 0 || vrt.FdReadable(d.epollFd)
		})
		if r.stop {
			return
		}
		n, err := epollWait(d.epollFd, events[:], 0)
		if err != nil {
			return
		}
		if n > 0 {
			d.lock.Lock()
			for i := 0; i < n; i++ {
				h := *(**connEventHandler)(unsafe.Pointer(&events[i].data))
				h.handleEvent(int(events[i].events), d)
			}
			d.lock.Unlock()
		}
		d.runLambda()
	}
}

type pairOpts struct {
	QueueCap    uint32
	Slices      []*SizePercentPair
	ListenCB    ListenCallback // server side asynchronous API (nil = AcceptStream)
	FreeSmall   int            // leave only this many allocatable slots in the smallest class (0 = all), others untouched
	FreeOthers  int            // >= 0: leave this many allocatable slots in every other class (-1 = all)
	InitTimeout vrt.Duration
	WriteTO     vrt.Duration
	File        bool // /dev/shm files instead of memfd
}

type ePair struct {
	c, s       *Session
	cerr, serr error
	router     *vRouter
	name       string
	hogged     []*bufferSlice
	baseFds    map[int]bool
	bm         *bufferManager
	tables     map[int]*globalBufferManager
	tableOf    func(proc int) *globalBufferManager
}

var pairSeq int

func listFds() map[int]bool {
	out := map[int]bool{}
	ents, err := os.ReadDir("/proc/self/fd")
	if err != nil {
		return out
	}
	for _, e := range ents {
		if n, err := strconv.Atoi(e.Name()); err == nil {
			out[n] = true
		}
	}
	return out
}

func pairConfig(o pairOpts, name string) *Config {
	cfg := DefaultConfig()
	cfg.LogOutput = io.Discard
	cfg.ShareMemoryBufferCap = 1 << 20
	cfg.QueueCap = o.QueueCap
	if cfg.QueueCap == 0 {
		cfg.QueueCap = 16
	}
	if o.File {
		cfg.MemMapType = MemMapTypeDevShmFile
		cfg.ShareMemoryPathPrefix = "/dev/shm/" + name
	} else {
		cfg.MemMapType = MemMapTypeMemFd
		cfg.ShareMemoryPathPrefix = name
	}
	cfg.QueuePath = cfg.ShareMemoryPathPrefix + "_queue"
	cfg.BufferSliceSizes = o.Slices
	if cfg.BufferSliceSizes == nil {
		// a small class of 16-byte slices (about 290 of them) and one huge slot that can never be allocated
		cfg.BufferSliceSizes = []*SizePercentPair{{Size: 16, Percent: 1}, {Size: 1 << 19, Percent: 99}}
	}
	if o.InitTimeout > 0 {
		cfg.InitializeTimeout = o.InitTimeout
	}
	if o.WriteTO > 0 {
		cfg.ConnectionWriteTimeout = o.WriteTO
	}
	return cfg
}

// socketPairConns returns two *net.UnixConn over a fresh AF_UNIX stream socketpair.
func socketPairConns() (net.Conn, net.Conn) {
	fds, err := syscall.Socketpair(syscall.AF_UNIX, syscall.SOCK_STREAM, 0)
	if err != nil {
		panic("socketpair: " + err.Error())
	}
	mk := func(fd int) net.Conn {
		f := os.NewFile(uintptr(fd), "pair")
		c, err := net.FileConn(f)
		f.Close()
		if err != nil {
			panic("fileconn: " + err.Error())
		}
		trackConn(c)
		return c
	}
	return mk(fds[0]), mk(fds[1])
}

func sysWrite(fd int, b []byte) (int, error) { return syscall.Write(fd, b) }

// sysReadAvail returns the bytes that are waiting on a descriptor right now (never blocks).
func sysReadAvail(fd int) []byte {
	syscall.SetNonblock(fd, true)
	var out []byte
	buf := make([]byte, 4096)
	for {
		n, err := syscall.Read(fd, buf)
		if n <= 0 || err != nil {
			return out
		}
		out = append(out, buf[:n]...)
	}
}
func syscallMunmap(b []byte)                   { syscall.Munmap(b) }

// mappedPaths lists the mappings of this OS process whose backing object carries the given name (shared-memory
// files and memfds are named after the pair).
func mappedPaths(name string) []string {
	b, err := os.ReadFile("/proc/self/maps")
	if err != nil {
		return nil
	}
	seen := map[string]bool{}
	var out []string
	for _, l := range strings.Split(string(b), "\n") {
		if i := strings.Index(l, name); i >= 0 {
			f := strings.Fields(l)
			if len(f) > 1 && strings.HasPrefix(f[1], "---") {
				continue // unmapped by the code under test (kept PROT_NONE until the execution is torn down)
			}
			pth := f[len(f)-1]
			if len(f) >= 6 {
				pth = strings.Join(f[5:], " ")
			}
			if !seen[pth] {
				seen[pth] = true
				out = append(out, pth)
			}
		}
	}
	sort.Strings(out)
	return out
}

// trackConn makes sure a connection object created by the harness is closed through the object when the execution is
// torn down (never only by descriptor number: its finalizer would close that number again at some later time, when
// it may belong to a later execution).
func trackConn(c net.Conn) {
	vrt.OnCleanup(func() { c.Close() })
}

// noteConnOwner attributes a connection's descriptor to a process.
func noteConnOwner(c net.Conn, proc int) {
	type sc interface {
		SyscallConn() (syscall2.RawConn, error)
	}
	if s, ok := c.(sc); ok {
		if rc, err := s.SyscallConn(); err == nil {
			rc.Control(func(fd uintptr) { vrt.NoteFdOwner(int(fd), proc) })
		}
	}
}

// pairBegin prepares the process-global state of an execution (called first thing by every E-pair scenario).
var netpollWarm bool

// warmNetpoll makes the Go runtime create its own poller descriptors before the first descriptor baseline is taken
// (they must survive the per-execution "close everything new" sweep).
func warmNetpoll() {
	if netpollWarm {
		return
	}
	netpollWarm = true
	a, b := socketPairConns()
	a.Close()
	b.Close()
	if f, err := os.Open("/proc/self/fd"); err == nil {
		f.Close()
	}
}

func pairBegin() *ePair {
	warmNetpoll()
	debugMode = true // the circuit breaker's 30 s re-arm timer is not part of any scenario
	SetLogLevel(levelNoPrint)
	p := &ePair{router: newVRouter()}
	p.baseFds = listFds()
	pairSeq++
	p.name = fmt.Sprintf("verif_%d_%d", os.Getpid(), pairSeq)
	if m, _ := filepath.Glob("/dev/shm/" + p.name + "*"); len(m) > 0 {
		// files of a killed earlier run whose process id was reused must not be taken for this execution's
		for _, f := range m {
			os.Remove(f)
		}
	}
	timerPool.Reset()
	bufferSlicePool.Reset()
	defaultDispatcher = p.router
	vrt.ShmPoints(false)
	// every "process" has its own table of mapped buffer managers, as real processes do: the server really maps the
	// buffer memory a second time instead of sharing the client's Go object
	p.tables = map[int]*globalBufferManager{}
	p.tableOf = func(proc int) *globalBufferManager {
		t := p.tables[proc]
		if t == nil {
			t = &globalBufferManager{bms: make(map[string]*bufferManager, 8)}
			p.tables[proc] = t
		}
		return t
	}
	vrt.PtrOrder = func(k interface{}) (uint64, bool) {
		switch v := k.(type) {
		case *Session:
			return uint64(v.connFd)<<8 | uint64(v.sessionID&0xff), true
		case *Stream:
			return uint64(v.id), true
		}
		return 0, false
	}
	bufferManagers = p.tableOf(0)
	vrt.SwitchHook = func(proc int) { bufferManagers = p.tableOf(proc) }
	vrt.OnCleanup(p.cleanup)
	return p
}

// tablesEmpty reports the buffer-manager table entries of all processes except the listed ones.
func (p *ePair) tableEntries(except int) []string {
	var out []string
	for proc, t := range p.tables {
		if proc == except {
			continue
		}
		for k, bm := range t.bms {
			out = append(out, fmt.Sprintf("process %d still maps %s (refcount %d)", proc, k, bm.refCount))
		}
	}
	sort.Strings(out)
	return out
}

// newEPair builds an established pair; the handshake runs in the quiet (non-branching) setup phase.
func newEPair(o pairOpts) *ePair {
	p := pairBegin()
	vrt.Quiet(true)
	ca, cb := socketPairConns()
	noteConnOwner(ca, 1)
	noteConnOwner(cb, 2)
	cfgC, cfgS := pairConfig(o, p.name), pairConfig(o, p.name)
	cfgS.listenCallback = o.ListenCB
	tc := vrt.GoProc("client-init", 1, func() { p.c, p.cerr = newSession(cfgC, ca, true) })
	ts := vrt.GoProc("server-init", 2, func() { p.s, p.serr = newSession(cfgS, cb, false) })
	vrt.WaitThreads(tc, ts)
	if p.cerr != nil || p.serr != nil {
		vrt.Failf("harness", "pair setup failed: client %v server %v", p.cerr, p.serr)
	}
	p.bm = p.c.bufferManager
	// exhaustion pattern: hold back slots so that the scenario decides which messages fit into shared memory
	for ci, l := range p.bm.lists {
		keep := -1
		if ci == 0 && o.FreeSmall > 0 {
			keep = o.FreeSmall
		} else if ci > 0 && o.FreeOthers >= 0 {
			keep = o.FreeOthers
		}
		for keep >= 0 && l.remain() > keep {
			s, err := l.pop()
			if err != nil {
				break
			}
			p.hogged = append(p.hogged, s)
		}
	}
	vrt.WaitIdle(0)
	vrt.Quiet(false)
	return p
}

// killServer emulates SIGKILL of process B: its threads stop for good and the kernel closes its descriptors
// (the control connection's hang-up is what the surviving side then sees).
func (p *ePair) killProc(proc int) {
	vrt.KillProc(proc)
	s := p.s
	if proc == 1 {
		s = p.c
	}
	if s != nil {
		if c, ok := s.eventConn.(*connEventHandler); ok && c.file != nil {
			c.file.Close()
		}
	}
	if d := p.router.d[proc]; d != nil {
		syscall.Close(d.epollFd)
		d.epollFd = -1
	}
}

func (p *ePair) inUse() int {
	n := 0
	for _, l := range p.bm.lists {
		n += int(*l.cap) - int(*l.size)
	}
	return n - len(p.hogged)
}

// cleanup releases what an execution (possibly aborted half-way) left behind: mappings, descriptors, table entries.
func (p *ePair) cleanup() {
	p.router.stop = true
	for _, s := range []*Session{p.c, p.s} {
		if s == nil {
			continue
		}
		if qm := s.queueManager; qm != nil && len(qm.mem) > 0 && !vrt.WasUnmapped(qm.mem) {
			syscall.Munmap(qm.mem)
		}
	}
	vrt.SwitchHook = nil
	for _, t := range p.tables {
		for k, bm := range t.bms {
			if len(bm.mem) > 0 && !vrt.WasUnmapped(bm.mem) {
				syscall.Munmap(bm.mem)
			}
			if bm.mmapMapType == MemMapTypeDevShmFile {
				os.Remove(bm.path)
			}
			delete(t.bms, k)
		}
	}
	bufferManagers = &globalBufferManager{bms: make(map[string]*bufferManager, 8)}
	if m, _ := filepath.Glob("/dev/shm/" + p.name + "*"); len(m) > 0 {
		for _, f := range m {
			os.Remove(f)
		}
	}
	for fd := range listFds() {
		if !p.baseFds[fd] {
			if sweepLog != nil {
				if tgt, err := os.Readlink(fmt.Sprintf("/proc/self/fd/%d", fd)); err == nil {
					sweepLog[tgt[:strings.IndexAny(tgt+":", ":[")]]++
				}
			}
			syscall.Close(fd)
		}
	}
}

// sweepLog (diagnostics): what kind of descriptors the end-of-execution sweep had to close by number. Anything that
// is owned by a Go object (socket, file) must have been closed through the object before, or its finalizer would
// close the number again during a later execution.
var sweepLog map[string]int

// bScenario is one session-level scenario explored with a deviation bound.
type bScenario struct {
	Live   bool // an execution that does not end within the step horizon is a violation
	Name   string
	Bound  int // quick bound
	BoundT int // thorough bound
	Body   func()
	Racy   bool // racy timers
}

func runBScenarios(t *testing.T, prop string, scs []bScenario) {
	w := newWorker(t, prop)
	defer w.finish()
	runBScenariosW(w, prop, scs)
}

func runBScenariosW(w *worker, prop string, scs []bScenario) {
	only := os.Getenv("VERIF_ONLY") // development aid: run the scenarios whose name contains this
	for i, sc := range scs {
		if only != "" && !strings.Contains(sc.Name, only) {
			continue
		}
		b := sc.Bound
		if w.thorough() {
			b = sc.BoundT
		}
		name := fmt.Sprintf("%s/%s-bound%d", prop, sc.Name, b)
		opts := vrt.Options{Bound: b, RacyTimers: sc.Racy, StepLimit: 20000, FailOnHorizon: sc.Live}
		if i == 0 {
			w.determinism(name, opts, sc.Body)
		}
		// every worker takes its share of the level-1 subtrees of every scenario
		opts.ShardI, opts.ShardN = w.shardI, w.shardN
		w.explore(name, map[string]interface{}{"scenario": sc.Name, "bound": b}, opts, sc.Body)
	}
}

const ms = vrt.Millisecond

// ---- small helpers for scenarios -----------------------------------------------------------------------

func patBytes(stream, from, n int) []byte {
	b := make([]byte, n)
	for i := range b {
		b[i] = byte((from+i)*7 + stream*31 + 1)
	}
	return b
}

// recordingCallbacks implements StreamCallbacks and records what it is offered.
type recordingCallbacks struct {
	st        *Stream
	onData    func(r BufferReader)
	got       []byte
	calls     int
	running   int
	maxRun    int
	local     int
	remote    int
	remoteAt  int // number of bytes consumed when OnRemoteClose was delivered
}

func (c *recordingCallbacks) OnData(r BufferReader) {
	c.running++
	if c.running > c.maxRun {
		c.maxRun = c.running
	}
	c.calls++
	if c.onData != nil {
		c.onData(r)
	} else {
		n := r.Len()
		b, err := r.ReadBytes(n)
		if err == nil {
			c.got = append(c.got, b...)
		}
		r.ReleasePreviousRead()
	}
	c.running--
}
func (c *recordingCallbacks) OnLocalClose()  { c.local++ }
func (c *recordingCallbacks) OnRemoteClose() { c.remote++; c.remoteAt = len(c.got) }

type listenCB struct {
	onNew func(s *Stream)
	news  int
	shut  int
}

func (l *listenCB) OnNewStream(s *Stream) {
	l.news++
	if l.onNew != nil {
		l.onNew(s)
	}
}
func (l *listenCB) OnShutdown(reason string) { l.shut++ }
