//go:build verif

package shmipc

import (
	"bytes"
	"fmt"
	"testing"

	"github.com/cloudwego/shmipc-go/internal/vrt"
)

// C20 — callback mode offers every received byte to OnData once, in order, serially.
//
// Real pair. The server installs callbacks in OnNewStream (on the event loop, before any data can reach the
// stream). The client flushes m messages (shared memory and socket fallback). Threads: client, both event loops,
// the client's send loop, the callback goroutine(s) the real code spawns through gopool.Go. All interleavings up
// to the deviation bound. Oracles: OnData never runs twice at once; the bytes consumed over all OnData calls are
// a prefix of the flushed bytes, nothing repeated or invented; at quiescence, when the receiving end has seen no
// close at all, everything flushed was offered (nothing left in the receive buffer or pending), without any
// further traffic.

type c20Opts struct {
	sizes      []int // message sizes
	freeSmall  int   // >0: only this many small slots are allocatable (larger messages go by socket)
	chunk      int   // >0: OnData consumes at most this many bytes per call
	peerClose  bool  // the client closes its stream after the last flush
	localClose bool  // a second server-side thread closes the stream at any moment
	closeInCB  bool  // OnData consumes and then closes the stream (first call)
	lazyClient bool  // every flush of the client may land at any moment (one deviation per flush placed)
	rhythm     bool  // the client flushes message k+1 as soon as OnData has consumed message k (request after request)
	reuse      bool  // OnData releases what it read with ReleaseReadAndReuse (the read buffer becomes the write buffer)
	slowCB     bool  // OnData takes time (1 virtual ms) before it consumes: other threads run meanwhile by default
}

func c20Body(o c20Opts) func() {
	return func() {
		var rc *recordingCallbacks
		closeReturned := false
		var later []*recordingCallbacks // a stream closed locally without the peer knowing can be "accepted" again (C10's matter)
		var srvStream *Stream
		lcb := &listenCB{}
		lcb.onNew = func(s *Stream) {
			if rc != nil {
				rc2 := &recordingCallbacks{st: s}
				later = append(later, rc2)
				s.SetCallbacks(rc2)
				vrt.Count("stream_accepted_again")
				return
			}
			srvStream = s
			rc = &recordingCallbacks{st: s}
			{
				rc.onData = func(r BufferReader) {
					if closeReturned {
						// "... and stops being offered once the stream is closed": no OnData call may START after a local
						// Close has returned (one that was already running may finish)
						vrt.Failf("ondata-after-close", "an OnData call started after Stream.Close had returned (%d bytes consumed before, %d buffered now)", len(rc.got), r.Len())
					}
					if o.slowCB {
						vrt.Sleep(ms)
					}
					n := r.Len()
					if o.chunk > 0 && n > o.chunk {
						n = o.chunk
					}
					b, err := r.ReadBytes(n)
					if err == nil {
						rc.got = append(rc.got, b...)
					}
					if o.reuse {
						s.ReleaseReadAndReuse()
					} else {
						r.ReleasePreviousRead()
					}
					if o.closeInCB && rc.calls == 1 {
						s.Close()
						closeReturned = true
					}
				}
			}
			if err := s.SetCallbacks(rc); err != nil {
				vrt.Failf("harness", "SetCallbacks: %v", err)
			}
		}
		p := newEPair(pairOpts{ListenCB: lcb, FreeSmall: o.freeSmall})
		var all []byte
		flushed := 0
		var ths []*vrt.Thread
		startClient := vrt.GoProc
		if o.lazyClient {
			startClient = vrt.GoLazy
		}
		ths = append(ths, startClient("client", 1, func() {
			st, err := p.c.OpenStream()
			if err != nil {
				vrt.Failf("harness", "open: %v", err)
			}
			for i, n := range o.sizes {
				if o.lazyClient && i > 0 {
					vrt.AnyMoment()
				}
				data := patBytes(1, len(all), n)
				all = append(all, data...)
				st.BufferWriter().WriteBytes(data)
				if err := st.Flush(false); err != nil {
					all = all[:len(all)-n]
					vrt.Count("flush_failed")
					break
				}
				flushed += n
				if o.rhythm {
					want := flushed
					vrt.Point("wait-consumed", func() bool { return rc != nil && len(rc.got) >= want })
				}
			}
			if o.peerClose {
				st.Close()
			}
		}))
		if o.localClose {
			ths = append(ths, vrt.GoProc("server-closer", 2, func() {
				vrt.Point("wait-stream", func() bool { return srvStream != nil })
				vrt.AnyMoment()
				srvStream.Close()
				closeReturned = true
			}))
		}
		vrt.WaitThreads(ths...)
		vrt.WaitIdle(vrt.Second)
		if rc == nil {
			if flushed > 0 && !o.peerClose {
				vrt.Failf("never-accepted", "%d bytes flushed, the server never saw the stream", flushed)
			}
			vrt.Outcome("no-stream")
			return
		}
		for _, r := range append([]*recordingCallbacks{rc}, later...) {
			if r.maxRun > 1 {
				vrt.Failf("reentrant", "OnData ran %d times at once", r.maxRun)
			}
		}
		if !bytes.HasPrefix(all, rc.got) {
			vrt.Failf("not-prefix", "bytes consumed by OnData %x are not a prefix of the flushed bytes %x", rc.got, all)
		}
		sawClose := o.peerClose || o.localClose || o.closeInCB
		if !sawClose {
			if len(rc.got) != flushed {
				srvStream.pendingData.moveTo(srvStream.recvBuf)
				vrt.Failf("not-offered", "quiescent, stream open: %d of %d flushed bytes reached OnData (%d calls); %d sit in the receive buffer", len(rc.got), flushed, rc.calls, srvStream.recvBuf.Len())
			}
		}
		vrt.Outcome(fmt.Sprintf("got=%d/%d calls=%d remote=%d local=%d", len(rc.got), flushed, rc.calls, rc.remote, rc.local))
	}
}

func TestVerif_C20(t *testing.T) {
	runBScenarios(t, "C20", []bScenario{
		{Name: "two-shm-consume-all", Bound: 2, BoundT: 3, Body: c20Body(c20Opts{sizes: []int{5, 20}})},
		{Name: "two-shm-chunk3", Bound: 2, BoundT: 3, Body: c20Body(c20Opts{sizes: []int{5, 7}, chunk: 3})},
		{Name: "three-mixed-fallback", Bound: 2, BoundT: 3, Body: c20Body(c20Opts{sizes: []int{5, 100, 6}, freeSmall: 2})},
		{Name: "three-shm", Bound: 2, BoundT: 3, Body: c20Body(c20Opts{sizes: []int{4, 4, 4}})},
		{Name: "two-then-peer-close", Bound: 2, BoundT: 3, Body: c20Body(c20Opts{sizes: []int{5, 6}, peerClose: true})},
		{Name: "two-local-close-anytime", Bound: 2, BoundT: 3, Body: c20Body(c20Opts{sizes: []int{5, 6}, localClose: true})},
		{Name: "two-close-inside-ondata", Bound: 2, BoundT: 3, Body: c20Body(c20Opts{sizes: []int{5, 6}, closeInCB: true})},
		{Name: "close-inside-ondata-with-bytes-left", Bound: 1, BoundT: 2, Body: c20Body(c20Opts{sizes: []int{8, 6}, chunk: 3, closeInCB: true})},
		{Name: "three-shm-chunked-lazy-writer", Bound: 1, BoundT: 3, Body: c20Body(c20Opts{sizes: []int{4, 4, 4}, chunk: 3, lazyClient: true})},
		{Name: "three-shm-lazy-writer-slow-callback", Bound: 1, BoundT: 3, Body: c20Body(c20Opts{sizes: []int{4, 4, 4}, lazyClient: true, slowCB: true})},
		// "data that arrives just as the callback returns": each message is flushed the moment the previous one was consumed
		{Name: "next-message-as-callback-returns-slow-callback", Bound: 2, BoundT: 3, Body: c20Body(c20Opts{sizes: []int{4, 4, 4}, rhythm: true, slowCB: true})},
		{Name: "next-message-as-callback-returns", Bound: 1, BoundT: 3, Body: c20Body(c20Opts{sizes: []int{4, 4, 4}, rhythm: true})},
		{Name: "two-shm-reuse-slow-callback", Bound: 1, BoundT: 2, Body: c20Body(c20Opts{sizes: []int{5, 6}, reuse: true, slowCB: true})},
		{Name: "three-shm-reuse-lazy-writer", Bound: 1, BoundT: 3, Body: c20Body(c20Opts{sizes: []int{4, 4, 4}, reuse: true, lazyClient: true})},
		{Name: "local-close-anytime-chunked", Bound: 1, BoundT: 2, Body: c20Body(c20Opts{sizes: []int{8, 6}, chunk: 3, localClose: true})},
	})
}
