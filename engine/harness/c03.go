//go:build verif

package shmipc

import (
	"encoding/json"
	"fmt"
	"os"
	"sort"
	"testing"
	"unsafe"

	syscall "golang.org/x/sys/unix"

	"github.com/cloudwego/shmipc-go/internal/vrt"
)

// C03 — both processes derive the same memory layout from any configuration.
//
// Sequential bounded-exhaustive enumeration (no scheduler): every (memory size, start offset, list of
// (size, percent) pairs) of the grid is laid out with the real createBufferManager (after the sort the real
// callers apply), re-read with the real mappingBufferManager, and checked; the queue pair likewise; a
// page-sized subset additionally goes through both real mapping back-ends (/dev/shm file, memfd).

type c03Cfg struct {
	M      int
	Off    uint32
	Pairs  []SizePercentPair
	Sorted bool
}

func (c c03Cfg) String() string {
	s := fmt.Sprintf("M=%d off=%d pairs=", c.M, c.Off)
	for _, p := range c.Pairs {
		s += fmt.Sprintf("(%d,%d%%)", p.Size, p.Percent)
	}
	return s
}

// c03Replay identifies one failing case of the sequential enumeration (stored in the replay file).
type c03Replay struct {
	Kind string `json:"kind"` // layout | queue | backend
	Cfg  c03Cfg `json:"cfg"`
	QCap uint32 `json:"qcap"`
}

type c03Stats struct {
	configs, ok, rejected, layouts int64
	slotsChecked, allocs          int64
	layoutSet                     map[uint64]bool
	fail                          *vrt.Failure
	failCfg                       string
	samples                       []interface{}
}

func c03ChainOK(l *bufferList) string {
	ss := *l.capPerBuffer + bufferHeaderSize
	if *l.size != int32(*l.cap) {
		return fmt.Sprintf("free count %d != capacity %d", *l.size, *l.cap)
	}
	seen := uint32(0)
	cur := *l.head
	for {
		if cur%ss != 0 || cur/ss >= *l.cap {
			return fmt.Sprintf("chain reaches invalid offset %d", cur)
		}
		seen++
		if seen > *l.cap {
			return "chain longer than capacity (cycle)"
		}
		h := bufferHeader(l.bufferRegion[cur : cur+bufferHeaderSize])
		if !h.hasNext() {
			break
		}
		cur = h.nextBufferOffset()
	}
	if seen != *l.cap {
		return fmt.Sprintf("chain visits %d of %d slots", seen, *l.cap)
	}
	if cur != *l.tail {
		return fmt.Sprintf("chain ends at %d, tail is %d", cur, *l.tail)
	}
	return ""
}

// c03CheckManagers checks a created manager and a mapped view of the same bytes. Returns "" or the violation.
func c03CheckManagers(st *c03Stats, mem []byte, off uint32, bm, mp *bufferManager, heavy bool) string {
	if len(bm.lists) == 0 {
		return "manager without size classes returned without error"
	}
	if len(bm.lists) != len(mp.lists) {
		return fmt.Sprintf("creator has %d classes, mapper %d", len(bm.lists), len(mp.lists))
	}
	type iv struct{ lo, hi uint64 }
	var ivs []iv
	key := uint64(len(mem))*31 + uint64(off)
	for i, l := range bm.lists {
		m := mp.lists[i]
		c, n := *l.capPerBuffer, *l.cap
		if c == 0 || n == 0 {
			return fmt.Sprintf("class %d has capacity %d slots of %d bytes", i, n, c)
		}
		ss := uint64(c) + bufferHeaderSize
		if uint64(len(l.bufferRegion)) != uint64(n)*ss {
			return fmt.Sprintf("class %d: region is %d bytes, %d slots of %d need %d", i, len(l.bufferRegion), n, c, uint64(n)*ss)
		}
		if l.bufferRegionOffsetInShm != l.offsetInShm+bufferListHeaderSize {
			return fmt.Sprintf("class %d: region not directly behind its header", i)
		}
		lo, hi := uint64(l.offsetInShm), uint64(l.bufferRegionOffsetInShm)+uint64(n)*ss
		if lo < uint64(off)+bufferManagerHeaderSize || hi > uint64(len(mem)) {
			return fmt.Sprintf("class %d occupies [%d,%d) outside the mapping [%d,%d)", i, lo, hi, uint64(off)+bufferManagerHeaderSize, len(mem))
		}
		if &l.bufferRegion[0] != &mem[l.bufferRegionOffsetInShm] {
			return fmt.Sprintf("class %d: region does not start at its advertised offset", i)
		}
		ivs = append(ivs, iv{lo, hi})
		// the peer's view
		if *m.cap != n || *m.capPerBuffer != c || m.offsetInShm != l.offsetInShm || m.bufferRegionOffsetInShm != l.bufferRegionOffsetInShm ||
			len(m.bufferRegion) != len(l.bufferRegion) || &m.bufferRegion[0] != &l.bufferRegion[0] {
			return fmt.Sprintf("class %d: mapper reconstructs cap=%d size=%d off=%d region=%d+%d, creator cap=%d size=%d off=%d region=%d+%d",
				i, *m.cap, *m.capPerBuffer, m.offsetInShm, m.bufferRegionOffsetInShm, len(m.bufferRegion), n, c, l.offsetInShm, l.bufferRegionOffsetInShm, len(l.bufferRegion))
		}
		if m.size != l.size || m.head != l.head || m.tail != l.tail {
			return fmt.Sprintf("class %d: mapper's size/head/tail cursors are not the creator's", i)
		}
		if msg := c03ChainOK(l); msg != "" {
			return fmt.Sprintf("class %d fresh: %s", i, msg)
		}
		st.slotsChecked += int64(n)
		key = key*1000003 + uint64(n)<<32 + uint64(c) + uint64(l.offsetInShm)<<17
	}
	sort.Slice(ivs, func(a, b int) bool { return ivs[a].lo < ivs[b].lo })
	for i := 1; i < len(ivs); i++ {
		if ivs[i].lo < ivs[i-1].hi {
			return fmt.Sprintf("classes overlap: [%d,%d) and [%d,%d)", ivs[i-1].lo, ivs[i-1].hi, ivs[i].lo, ivs[i].hi)
		}
	}
	if mp.minSliceSize != bm.minSliceSize || mp.maxSliceSize != bm.maxSliceSize {
		return fmt.Sprintf("min/max slice size differ: creator %d/%d mapper %d/%d", bm.minSliceSize, bm.maxSliceSize, mp.minSliceSize, mp.maxSliceSize)
	}
	if !st.layoutSet[key] {
		st.layoutSet[key] = true
		st.layouts++
	}
	if !heavy {
		return ""
	}
	// allocate everything through the creator, write a pattern, read it through the mapper, recycle through the mapper
	for i, l := range bm.lists {
		m := mp.lists[i]
		var offs []uint32
		for {
			s, err := l.pop()
			if err != nil {
				break
			}
			st.allocs++
			rel := s.offsetInShm - l.bufferRegionOffsetInShm
			ss := *l.capPerBuffer + bufferHeaderSize
			if s.offsetInShm < l.bufferRegionOffsetInShm || rel%ss != 0 || rel/ss >= *l.cap || uint32(len(s.data)) != *l.capPerBuffer {
				return fmt.Sprintf("class %d: allocated buffer at %d (len %d) is not a slot", i, s.offsetInShm, len(s.data))
			}
			for k := range s.data {
				s.data[k] = byte(s.offsetInShm>>uint(8*(k%4))) ^ byte(k)
			}
			offs = append(offs, s.offsetInShm)
			putBackBufferSlice(s)
			if len(offs) > int(*l.cap) {
				return fmt.Sprintf("class %d: more allocations than slots", i)
			}
		}
		if len(offs) != int(*l.cap)-1 {
			return fmt.Sprintf("class %d: %d of %d slots could be allocated (all but the last expected)", i, len(offs), *l.cap)
		}
		seen := map[uint32]bool{}
		for _, o := range offs {
			if seen[o] {
				return fmt.Sprintf("class %d: slot %d allocated twice", i, o)
			}
			seen[o] = true
			ps, err := mp.readBufferSlice(o)
			if err != nil {
				return fmt.Sprintf("class %d: peer cannot read slot %d: %v", i, o, err)
			}
			if ps.cap != *m.capPerBuffer || uint32(len(ps.data)) != *m.capPerBuffer {
				return fmt.Sprintf("class %d: peer sees slot %d with capacity %d", i, o, ps.cap)
			}
			for k := range ps.data {
				if ps.data[k] != byte(o>>uint(8*(k%4)))^byte(k) {
					return fmt.Sprintf("class %d: pattern written through the creator's slot %d is not what the mapper reads", i, o)
				}
			}
			mp.recycleBuffer(ps)
		}
		if msg := c03ChainOK(m); msg != "" {
			return fmt.Sprintf("class %d after alloc-all/recycle-all: %s", i, msg)
		}
	}
	return ""
}

func c03One(st *c03Stats, cfg c03Cfg) (viol string) {
	defer func() {
		if r := recover(); r != nil {
			viol = fmt.Sprintf("panic: %v", r)
		}
	}()
	st.configs++
	mem := make([]byte, cfg.M)
	pairs := make([]*SizePercentPair, len(cfg.Pairs))
	for i := range cfg.Pairs {
		p := cfg.Pairs[i]
		pairs[i] = &p
	}
	sort.Sort(sizePercentPairs(pairs)) // what getGlobalBufferManager[WithMemFd] do before creating
	bm, err := createBufferManager(pairs, "", mem, cfg.Off)
	if err != nil {
		st.rejected++
		return ""
	}
	mp, err := mappingBufferManager("", mem, cfg.Off)
	if err != nil {
		return fmt.Sprintf("creator succeeded, mapper failed: %v", err)
	}
	total := int64(0)
	for _, l := range bm.lists {
		total += int64(*l.cap)
	}
	st.ok++
	// The allocate-all / recycle-all round trip identifies a buffer's class by its capacity (as recycleBuffer does),
	// which is only well defined when the class sizes are distinct; with duplicate sizes the layout oracles still
	// apply but the round trip is skipped (C03 states layout facts, not recycling; see DESIGN.md section 9).
	distinct := true
	for i := 1; i < len(pairs); i++ {
		if pairs[i].Size == pairs[i-1].Size {
			distinct = false
		}
	}
	return c03CheckManagers(st, mem, cfg.Off, bm, mp, total <= 4096 && distinct)
}

func c03Grid(thorough bool, visit func(c03Cfg)) {
	ms := []int{0, 7, 8, 43, 44, 45, 64, 100, 200, 300, 512, 1000, 2048, 4096, 10000, 65536}
	p1 := []uint32{0, 1, 30, 50, 99, 100, 101}
	p2 := []uint32{0, 1, 20, 30, 50, 70, 80, 99, 100}
	p3 := []uint32{1, 10, 20, 30, 40, 50, 60, 80}
	if thorough {
		ms = append(ms, 129, 1023, 1024, 1025, 30000, 1<<20)
		p3 = []uint32{0, 1, 10, 20, 30, 33, 34, 40, 50, 60, 80, 98}
	}
	for _, m := range ms {
		sizes := []uint32{1, 3, 4, 8, 16, 100}
		for _, s := range []int{m / 2, m - 64, m - 45, m} {
			if s > 0 {
				sizes = append(sizes, uint32(s))
			}
		}
		sizes = append(sizes, 0)
		var ok []uint32
		for _, s := range sizes {
			if int(s) <= m { // VerifyConfig rejects sizes beyond the mapping's capacity
				ok = append(ok, s)
			}
		}
		sizes = ok
		small := sizes
		if !thorough && len(small) > 7 {
			small = small[:7]
		}
		for _, off := range []uint32{0, 8} {
			for _, a := range sizes {
				for _, pa := range p1 {
					visit(c03Cfg{M: m, Off: off, Pairs: []SizePercentPair{{a, pa}}})
				}
				for _, b := range sizes { // ordered tuples: unsorted lists included
					for _, pa := range p2 {
						for _, pb := range p2 {
							if pa+pb > 100 && !(pa+pb == 101 || pa == 100) {
								continue // a few sums beyond 100 exercise the rejection, the bulk is <= 100
							}
							visit(c03Cfg{M: m, Off: off, Pairs: []SizePercentPair{{a, pa}, {b, pb}}})
						}
					}
				}
			}
			for _, a := range small {
				for _, b := range small {
					for _, c := range small {
						for _, pa := range p3 {
							for _, pb := range p3 {
								for _, pc := range p3 {
									if pa+pb+pc > 100 && pa+pb+pc != 110 {
										continue
									}
									visit(c03Cfg{M: m, Off: off, Pairs: []SizePercentPair{{a, pa}, {b, pb}, {c, pc}}})
								}
							}
						}
					}
				}
			}
		}
	}
}

// ---- queues ------------------------------------------------------------------------------------

func c03QueuePair(a, b *queueManager, capacity uint32) string {
	if a.sendQueue == a.recvQueue || b.sendQueue == b.recvQueue {
		return "send queue and receive queue are the same queue"
	}
	if a.sendQueue.head == a.recvQueue.head || b.sendQueue.head == b.recvQueue.head {
		return "send and receive queue share their cursors"
	}
	if a.sendQueue.cap != int64(capacity) || b.recvQueue.cap != int64(capacity) || a.recvQueue.cap != int64(capacity) || b.sendQueue.cap != int64(capacity) {
		return fmt.Sprintf("capacities differ from %d: %d %d %d %d", capacity, a.sendQueue.cap, a.recvQueue.cap, b.sendQueue.cap, b.recvQueue.cap)
	}
	dir := func(name string, s, r, other *queue) string {
		n := int(capacity)
		for i := 0; i < n; i++ {
			if err := s.put(queueElement{seqID: uint32(i + 1), offsetInShmBuf: uint32(1000 + i), status: uint32(i) ^ 0x5a}); err != nil {
				return fmt.Sprintf("%s: put %d of %d failed: %v", name, i, n, err)
			}
		}
		if err := s.put(queueElement{seqID: 999}); err != ErrQueueFull {
			return fmt.Sprintf("%s: put beyond capacity returned %v", name, err)
		}
		if _, err := other.pop(); err == nil && n > 0 {
			return fmt.Sprintf("%s: an element put on the send queue came out of the sender's own receive queue", name)
		}
		for i := 0; i < n; i++ {
			e, err := r.pop()
			if err != nil || e.seqID != uint32(i+1) || e.offsetInShmBuf != uint32(1000+i) || e.status != uint32(i)^0x5a {
				return fmt.Sprintf("%s: pop %d returned %+v, %v", name, i, e, err)
			}
		}
		if _, err := r.pop(); err == nil {
			return fmt.Sprintf("%s: pop beyond the elements put succeeded", name)
		}
		return ""
	}
	if m := dir("A->B", a.sendQueue, b.recvQueue, a.recvQueue); m != "" {
		return m
	}
	return dir("B->A", b.sendQueue, a.recvQueue, b.recvQueue)
}

func c03QueueMem(capacity uint32) (viol string) {
	defer func() {
		if r := recover(); r != nil {
			viol = fmt.Sprintf("panic: %v", r)
		}
	}()
	memSize := countQueueMemSize(capacity) * queueCount
	mem := make([]byte, memSize)
	// exactly the slicing createQueueManager / mappingQueueManager apply to the mapped file
	a := &queueManager{sendQueue: createQueueFromBytes(mem[:memSize/2], capacity), recvQueue: createQueueFromBytes(mem[memSize/2:], capacity), mem: mem}
	b := &queueManager{sendQueue: mappingQueueFromBytes(mem[memSize/2:]), recvQueue: mappingQueueFromBytes(mem[:memSize/2]), mem: mem}
	return c03QueuePair(a, b, capacity)
}

// real back-ends: the "peer" is a second mapping of the same file / memfd in this process
func c03Backends(st *c03Stats, dir string, n int, capacity uint32, pairs []*SizePercentPair, qcap uint32) (viol string) {
	defer func() {
		if r := recover(); r != nil {
			viol = fmt.Sprintf("panic: %v", r)
		}
	}()
	// ---- /dev/shm file
	path := fmt.Sprintf("%s/c03_%d_%d_buffer", dir, os.Getpid(), n)
	os.Remove(path) // (a file left behind by a killed earlier run whose process id was reused must not be taken for ours)
	bm, err := getGlobalBufferManager(path, capacity, true, pairs)
	if err == nil {
		bufferManagers.Lock()
		delete(bufferManagers.bms, path) // the peer process has its own table
		bufferManagers.Unlock()
		mp, err2 := getGlobalBufferManager(path, 0, false, nil)
		if err2 != nil {
			viol = fmt.Sprintf("file back-end: creator ok, mapper failed: %v", err2)
		} else {
			if &mp.mem[0] == &bm.mem[0] {
				viol = "file back-end: second mapping is not a separate mapping (harness)"
			} else {
				viol = c03CheckManagersTwoMaps(st, bm, mp)
			}
			syscall.Munmap(mp.mem)
			bufferManagers.Lock()
			delete(bufferManagers.bms, path)
			bufferManagers.Unlock()
		}
		syscall.Munmap(bm.mem)
		os.Remove(path)
		if viol != "" {
			return "file back-end: " + viol
		}
	}
	// ---- memfd
	name := fmt.Sprintf("c03_memfd_%d_%d", os.Getpid(), n)
	bm2, err := getGlobalBufferManagerWithMemFd(name, 0, capacity, true, pairs)
	if err == nil {
		bufferManagers.Lock()
		delete(bufferManagers.bms, name)
		bufferManagers.Unlock()
		fd2, _ := syscall.Dup(bm2.memFd)
		mp2, err2 := getGlobalBufferManagerWithMemFd(name, fd2, 0, false, nil)
		if err2 != nil {
			viol = fmt.Sprintf("creator ok, mapper failed: %v", err2)
			syscall.Close(fd2)
		} else {
			viol = c03CheckManagersTwoMaps(st, bm2, mp2)
			syscall.Munmap(mp2.mem)
			syscall.Close(fd2)
			bufferManagers.Lock()
			delete(bufferManagers.bms, name)
			bufferManagers.Unlock()
		}
		syscall.Munmap(bm2.mem)
		syscall.Close(bm2.memFd)
		if viol != "" {
			return "memfd back-end: " + viol
		}
	}
	// ---- queues, both back-ends
	qpath := fmt.Sprintf("%s/c03_%d_%d_queue", dir, os.Getpid(), n)
	os.Remove(qpath)
	qa, err := createQueueManager(qpath, qcap)
	if err != nil {
		return fmt.Sprintf("createQueueManager(%d): %v", qcap, err)
	}
	qb, err := mappingQueueManager(qpath)
	if err != nil {
		return fmt.Sprintf("mappingQueueManager: %v", err)
	}
	viol = c03QueuePair(qa, qb, qcap)
	syscall.Munmap(qb.mem)
	syscall.Munmap(qa.mem)
	os.Remove(qpath)
	if viol != "" {
		return "file queue: " + viol
	}
	qc, err := createQueueManagerWithMemFd(name+"_q", qcap)
	if err != nil {
		return fmt.Sprintf("createQueueManagerWithMemFd(%d): %v", qcap, err)
	}
	qfd, _ := syscall.Dup(qc.memFd)
	qd, err := mappingQueueManagerMemfd(name+"_q", qfd)
	if err != nil {
		return fmt.Sprintf("mappingQueueManagerMemfd: %v", err)
	}
	viol = c03QueuePair(qc, qd, qcap)
	syscall.Munmap(qd.mem)
	syscall.Close(qfd)
	syscall.Munmap(qc.mem)
	syscall.Close(qc.memFd)
	if viol != "" {
		return "memfd queue: " + viol
	}
	return ""
}

// c03CheckManagersTwoMaps: creator and mapper are different mappings of the same object, so addresses differ
// and only offsets / contents can be compared.
func c03CheckManagersTwoMaps(st *c03Stats, bm, mp *bufferManager) string {
	if len(bm.mem) != len(mp.mem) {
		return fmt.Sprintf("mapping sizes differ: %d vs %d", len(bm.mem), len(mp.mem))
	}
	if len(bm.lists) != len(mp.lists) || len(bm.lists) == 0 {
		return fmt.Sprintf("creator has %d classes, mapper %d", len(bm.lists), len(mp.lists))
	}
	for i, l := range bm.lists {
		m := mp.lists[i]
		if *m.cap != *l.cap || *m.capPerBuffer != *l.capPerBuffer || m.offsetInShm != l.offsetInShm || m.bufferRegionOffsetInShm != l.bufferRegionOffsetInShm || len(m.bufferRegion) != len(l.bufferRegion) {
			return fmt.Sprintf("class %d reconstructed differently", i)
		}
		if uintptr(unsafe.Pointer(m.size))-uintptr(unsafe.Pointer(&mp.mem[0])) != uintptr(unsafe.Pointer(l.size))-uintptr(unsafe.Pointer(&bm.mem[0])) {
			return fmt.Sprintf("class %d: cursor offsets differ", i)
		}
		st.slotsChecked += int64(*l.cap)
		var offs []uint32
		for len(offs) < 64 {
			s, err := l.pop()
			if err != nil {
				break
			}
			for k := range s.data {
				s.data[k] = byte(s.offsetInShm>>uint(8*(k%4))) ^ byte(k)
			}
			offs = append(offs, s.offsetInShm)
			putBackBufferSlice(s)
		}
		for _, o := range offs {
			ps, err := mp.readBufferSlice(o)
			if err != nil {
				return fmt.Sprintf("peer cannot read slot %d: %v", o, err)
			}
			for k := range ps.data {
				if ps.data[k] != byte(o>>uint(8*(k%4)))^byte(k) {
					return fmt.Sprintf("class %d: pattern written through the creator's mapping of slot %d is not what the peer's mapping reads", i, o)
				}
			}
			mp.recycleBuffer(ps)
		}
		if msg := c03ChainOK(l); msg != "" {
			return fmt.Sprintf("class %d after alloc/recycle across mappings: %s", i, msg)
		}
	}
	return ""
}

func TestVerif_C03(t *testing.T) {
	w := newWorker(t, "C03")
	defer w.finish()
	SetLogLevel(levelNoPrint)
	st := &c03Stats{layoutSet: map[uint64]bool{}}
	if w.replay != nil {
		var rp c03Replay
		if err := json.Unmarshal(w.replay.Params, &rp); err != nil {
			t.Fatalf("replay params: %v", err)
		}
		for i := 0; i < 5; i++ {
			v := ""
			switch rp.Kind {
			case "layout":
				v = c03One(st, rp.Cfg)
			case "queue":
				v = c03QueueMem(rp.QCap)
			case "backend":
				var pairs []*SizePercentPair
				for k := range rp.Cfg.Pairs {
					pp := rp.Cfg.Pairs[k]
					pairs = append(pairs, &pp)
				}
				v = c03Backends(st, "/dev/shm", 9000+i, uint32(rp.Cfg.M), pairs, rp.QCap)
			}
			sig := ""
			if v != "" {
				sig = rp.Kind
			}
			fmt.Printf("REPLAY run=%d scenario=c03/grid steps=0 fail_sig=%q msg=%q\n", i, sig, v)
		}
		return
	}
	res := &vrt.Result{Name: "c03/grid", Exhaustive: true, Outcomes: map[string]int64{}, Counts: map[string]int64{}, FailCount: map[string]int64{}}
	idx := 0
	c03Grid(w.thorough(), func(cfg c03Cfg) {
		idx++
		if idx%w.shardN != w.shardI || len(res.Failures) > 0 {
			return
		}
		if v := c03One(st, cfg); v != "" {
			res.Failures = append(res.Failures, &vrt.Failure{Kind: "oracle", Sig: "layout", Msg: cfg.String() + ": " + v, Params: c03Replay{Kind: "layout", Cfg: cfg}})
			res.FailCount["layout"]++
		}
		if len(w.out.Samples) < 3 && st.ok > int64(len(w.out.Samples))*50 {
			w.out.Samples = append(w.out.Samples, cfg.String())
		}
	})
	// queues over plain memory, every capacity of the menu
	qcaps := []uint32{0, 1, 2, 3, 8, 1024}
	if w.thorough() {
		for c := uint32(4); c < 70; c++ {
			qcaps = append(qcaps, c)
		}
	}
	nq := int64(0)
	for i, qc := range qcaps {
		if i%w.shardN != w.shardI {
			continue
		}
		nq++
		if v := c03QueueMem(qc); v != "" && len(res.Failures) == 0 {
			res.Failures = append(res.Failures, &vrt.Failure{Kind: "oracle", Sig: "queue", Msg: fmt.Sprintf("queue cap %d: %s", qc, v), Params: c03Replay{Kind: "queue", QCap: qc}})
			res.FailCount["queue"]++
		}
	}
	// both real back-ends on a page-sized subset
	dir := "/dev/shm"
	nb := int64(0)
	n := 0
	for _, capacity := range []uint32{4096, 65536, 1 << 20} {
		for _, pairs := range [][]*SizePercentPair{
			{{Size: 64, Percent: 100}},
			{{Size: 1024, Percent: 70}, {Size: 100, Percent: 30}}, // unsorted on purpose
			{{Size: 8, Percent: 50}, {Size: 32, Percent: 30}, {Size: 128, Percent: 20}},
			{{Size: capacity - 64, Percent: 100}},
			{{Size: capacity, Percent: 100}},
		} {
			for _, qc := range []uint32{0, 1, 8} {
				n++
				if n%w.shardN != w.shardI {
					continue
				}
				nb++
				if v := c03Backends(st, dir, n, capacity, pairs, qc); v != "" && len(res.Failures) == 0 {
					rc := c03Cfg{M: int(capacity)}
					for _, pp := range pairs {
						rc.Pairs = append(rc.Pairs, *pp)
					}
					res.Failures = append(res.Failures, &vrt.Failure{Kind: "oracle", Sig: "backend", Msg: fmt.Sprintf("capacity %d pairs %d qcap %d: %s", capacity, len(pairs), qc, v), Params: c03Replay{Kind: "backend", Cfg: rc, QCap: qc}})
					res.FailCount["backend"]++
				}
			}
		}
	}
	res.Execs = st.configs + nq + nb
	res.States = st.layouts
	res.Transitions = st.slotsChecked + st.allocs
	res.Outcomes["rejected-with-error"] = st.rejected
	res.Outcomes["laid-out"] = st.ok
	res.Outcomes["queue-capacities"] = nq
	res.Outcomes["backend-configs"] = nb
	res.Counts["slots_checked"] = st.slotsChecked
	res.Counts["allocations"] = st.allocs
	res.Counts["distinct_layouts"] = st.layouts
	w.out.Scenarios = append(w.out.Scenarios, &scenarioResult{Name: "c03/grid", Result: res})
}
