//go:build verif

package shmipc

import (
	"bytes"
	"fmt"
	"io"
	"net"
	"os"
	"testing"

	"github.com/cloudwego/shmipc-go/internal/vrt"
)

// C19 — the net.Listener / net.Conn adapter behaves like a stream socket.
//
// Under the scheduler, with real unix sockets: the REAL ListenWithBacklog (net.Listen is routed to a wrapper whose
// Accept is a blocking scheduling point instead of a native block), its listenLoop, the per-connection goroutines
// (Server(), AcceptStream loop, wait-group watcher) and the streamWrapper; clients are real sessions dialled over
// the listening socket. Every schedule within the deviation bound. Oracles: every stream a client opens (and
// writes to) surfaces exactly once from Accept; Write delivers all of p or fails; Read returns between 1 and
// len(p) bytes, in order, or an error; a read deadline fires (not before its time); Close on either side ends the
// other side's reads with an error; listener.Close unblocks Accept, and once the listener and all its connections
// are closed every server session is closed (nothing stuck, wait-group never negative — that panics).

type c19Opts struct {
	name          string
	sessions      int
	streams       int // per session
	closeListener bool // a thread closes the listener at any moment
	deadline      bool
	sameDeadline  bool // with deadline: the read deadline is set once and not renewed between the two reads
	clientCloses  bool
}

func c19Dial(path, name string) (*Session, error) {
	conn, err := net.Dial("unix", path)
	if err != nil {
		return nil, err
	}
	trackConn(conn)
	noteConnOwner(conn, 1)
	cfg := pairConfig(pairOpts{}, name) // memfd mappings: the server side (Server(conn, DefaultConfig())) follows the client
	return newSession(cfg, conn, true)
}

func c19Body(o c19Opts) func() {
	return func() {
		p := pairBegin()
		path := fmt.Sprintf("/tmp/%s.sock", p.name)
		os.Remove(path)
		vrt.OnCleanup(func() { os.Remove(path) })
		var ln net.Listener
		var lerr error
		ts := vrt.GoProc("listen", 2, func() { ln, lerr = ListenWithBacklog(path, 8) })
		vrt.WaitThreads(ts)
		if lerr != nil {
			vrt.Failf("harness", "listen: %v", lerr)
		}
		raw := ln.(*listener).listener
		vrt.OnCleanup(func() { raw.Close() })
		total := o.sessions * o.streams
		type acc struct {
			conn net.Conn
			got  []byte
		}
		var accepted []*acc
		sent := map[string]bool{} // payload signature per opened stream
		var clientSessions []*Session
		var ths []*vrt.Thread
		acceptErrs := 0
		listenerClosed := false
		// server: Accept loop, then per-conn echo reader
		ths = append(ths, vrt.GoProc("acceptor", 2, func() {
			for len(accepted) < total {
				c, err := ln.Accept()
				if err != nil {
					acceptErrs++
					if !o.closeListener {
						vrt.Failf("accept-error", "Accept: %v", err)
					}
					return
				}
				a := &acc{conn: c}
				accepted = append(accepted, a)
				// read the 12-byte request with a small destination buffer, then echo it
				buf := make([]byte, 5)
				for len(a.got) < 12 {
					n, err := c.Read(buf)
					if err != nil {
						break
					}
					if n < 1 || n > len(buf) {
						vrt.Failf("read-contract", "Read(p[:5]) returned n=%d", n)
					}
					a.got = append(a.got, buf[:n]...)
				}
				if len(a.got) == 12 {
					n, err := c.Write(a.got)
					if err == nil && n != len(a.got) {
						vrt.Failf("write-contract", "Write of %d bytes returned n=%d, nil", len(a.got), n)
					}
				}
			}
		}))
		for si := 0; si < o.sessions; si++ {
			si := si
			ths = append(ths, vrt.GoProc(fmt.Sprintf("client%d", si), 1, func() {
				s, err := c19Dial(path, fmt.Sprintf("%s_c%d", p.name, si))
				if err != nil {
					if !o.closeListener {
						vrt.Failf("harness", "dial/handshake: %v", err)
					}
					return
				}
				clientSessions = append(clientSessions, s)
				for k := 0; k < o.streams; k++ {
					st, err := s.OpenStream()
					if err != nil {
						return
					}
					req := patBytes(si*10+k+1, 0, 12)
					n, err := st.Write(req)
					if err != nil {
						if !o.closeListener {
							vrt.Failf("write-contract", "client Write: %v", err)
						}
						continue
					}
					if n != len(req) {
						vrt.Failf("write-contract", "client Write of 12 bytes returned n=%d, nil", n)
					}
					sent[string(req)] = true
					if o.deadline {
						st.SetReadDeadline(vrt.Now().Add(30 * ms))
						t0 := vrt.VNow()
						one := make([]byte, 64)
						// nothing but the echo ever comes: a second read must time out, not before 30 ms
						rn, rerr := io.ReadFull(st, one[:12])
						if rerr == nil {
							if !o.sameDeadline {
								st.SetReadDeadline(vrt.Now().Add(30 * ms))
								t0 = vrt.VNow()
							}
							// (sameDeadline: the deadline set once above still stands - as on a socket, it applies to every
							// later Read until it is changed)
							_, rerr = st.Read(one)
							if o.sameDeadline && rerr == ErrTimeout && vrt.VNow()-t0 > int64(30*ms)+int64(20*ms) {
								vrt.Failf("late-timeout", "second Read under the same 30 ms deadline returned after %d ms", (vrt.VNow()-t0)/1e6)
							}
						}
						_ = rn
						if rerr == ErrTimeout && vrt.VNow()-t0 < int64(30*ms) {
							vrt.Failf("early-timeout", "read deadline of 30 ms fired after %d ms", (vrt.VNow()-t0)/1e6)
						}
						if rerr == nil {
							vrt.Failf("read-contract", "read with nothing to read returned data")
						}
					} else {
						st.SetReadDeadline(vrt.Now().Add(5 * vrt.Second))
						echo := make([]byte, 12)
						if _, err := io.ReadFull(st, echo); err == nil && !bytes.Equal(echo, req) {
							vrt.Failf("echo", "stream %d got %x back for %x", st.id, echo, req)
						} else if err != nil && !o.closeListener {
							vrt.Failf("echo", "client read of the echo: %v", err)
						}
					}
					if o.clientCloses {
						st.Close()
					}
				}
			}))
		}
		if o.closeListener {
			ths = append(ths, vrt.GoLazy("listener-closer", 2, func() { ln.Close(); listenerClosed = true }))
		}
		vrt.WaitThreads(ths...)
		vrt.WaitIdle(vrt.Second)
		// exactly-once surfacing
		seen := map[string]int{}
		for _, a := range accepted {
			if len(a.got) == 12 {
				seen[string(a.got)]++
				if !sent[string(a.got)] {
					vrt.Failf("foreign-bytes", "an accepted conn delivered %x which no client wrote", a.got)
				}
			}
		}
		for k, n := range seen {
			if n != 1 {
				vrt.Failf("surfaced-twice", "the stream with payload %x surfaced %d times from Accept", k, n)
			}
		}
		if !o.closeListener {
			if len(accepted) != total {
				vrt.Failf("not-surfaced", "%d streams were opened and written, %d surfaced from Accept", total, len(accepted))
			}
			for k := range sent {
				if seen[k] != 1 {
					vrt.Failf("not-surfaced", "the stream with payload %x never delivered its bytes", k)
				}
			}
		}
		// close everything: server conns, listener, client sessions; afterwards every server session must be closed
		var srvSessions []*Session
		_ = ln.(*listener)
		fin := vrt.GoProc("finish", 2, func() {
			// every server session that still has its connection registered with the server's event loop (the listener's
			// own table is emptied by Close, so it cannot be used to find them)
			if d := p.router.d[2]; d != nil {
				d.lock.Lock()
				for _, fd := range vrt.SortedKeys(d.conns) {
					if s, ok := d.conns[fd].callback.(*Session); ok {
						srvSessions = append(srvSessions, s)
					}
				}
				d.lock.Unlock()
			}
			for _, a := range accepted {
				a.conn.Close()
				a.conn.Close() // idempotent
			}
			if !listenerClosed {
				// (a listener the scenario already closed is not closed a second time: a second Close would release
				// whatever the first one forgot)
				ln.Close() // conns that were accepted from a session but never handed out by Accept are the listener's to close
			}
		})
		vrt.WaitThreads(fin)
		vrt.WaitIdle(2 * vrt.Second)
		for _, s := range srvSessions {
			if !s.IsClosed() {
				vrt.Failf("session-not-closed", "listener and all its conns are closed; a server session is still open (%d active streams)", s.GetActiveStreamCount())
			}
		}
		fa := vrt.GoProc("accept-after-close", 2, func() {
			if _, err := ln.Accept(); err == nil {
				vrt.Failf("accept-after-close", "Accept on a closed listener returned a conn")
			}
		})
		vrt.WaitThreads(fa)
		fc := vrt.GoProc("finish-clients", 1, func() {
			for _, s := range clientSessions {
				s.Close()
			}
		})
		vrt.WaitThreads(fc)
		vrt.WaitIdle(2 * vrt.Second)
		vrt.Outcome(fmt.Sprintf("accepted=%d/%d accepterr=%d srv=%d closeL=%v", len(accepted), total, acceptErrs, len(srvSessions), o.closeListener))
	}
}

func TestVerif_C19(t *testing.T) {
	mk := func(o c19Opts, b, bt int) bScenario {
		return bScenario{Name: o.name, Bound: b, BoundT: bt, Body: c19Body(o), Live: true}
	}
	runBScenarios(t, "C19", []bScenario{
		mk(c19Opts{name: "one-session-one-stream", sessions: 1, streams: 1, clientCloses: true}, 1, 2),
		mk(c19Opts{name: "one-session-two-streams", sessions: 1, streams: 2}, 1, 2),
		mk(c19Opts{name: "two-sessions", sessions: 2, streams: 1, clientCloses: true}, 1, 2),
		mk(c19Opts{name: "read-deadline", sessions: 1, streams: 1, deadline: true}, 1, 2),
		mk(c19Opts{name: "read-deadline-set-once", sessions: 1, streams: 1, deadline: true, sameDeadline: true}, 1, 2),
		mk(c19Opts{name: "listener-close-anytime", sessions: 1, streams: 2, closeListener: true}, 1, 2),
		mk(c19Opts{name: "listener-close-anytime-one-stream", sessions: 1, streams: 1, closeListener: true}, 2, 3),
	})
}
