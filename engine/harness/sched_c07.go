//go:build verif

package shmipc

import (
	"bytes"
	"fmt"
	"testing"

	"github.com/cloudwego/shmipc-go/internal/vrt"
)

// C07 — multiplexed streams stay isolated and ordered; close never overtakes data.
//
// Real pair, every schedule within the deviation bound. Writers flush keyed payloads (byte i of stream k is a
// function of (k, i)) through shared memory, through the socket fallback (allocation made to fail by holding
// back slots) and a mix of both, then close. Readers (synchronous, or in callback mode) must receive exactly
// their own stream's bytes in flush order, and the end of the stream only after every byte flushed before it.

type c07Stream struct {
	sizes []int // flush sizes, in order
	close bool
	lazy  bool // every operation of this writer may be delayed to any later moment (one deviation per operation placed)
}

type c07Opts struct {
	name      string
	streams   []c07Stream
	freeSmall int
	callback  bool // server streams in callback mode
	queueCap  uint32 // 0: the default (16)
	respond   int  // server writes this many bytes back on stream 0 after reading everything (client reads them)
}

func c07Body(o c07Opts) func() {
	return func() {
		type srv struct {
			st *Stream
			rc *recordingCallbacks
		}
		byID := map[uint32]*srv{}
		lcb := &listenCB{}
		lcb.onNew = func(s *Stream) {
			if byID[s.id] != nil {
				vrt.Failf("accepted-twice", "stream %d surfaced twice on the server", s.id)
			}
			e := &srv{st: s, rc: &recordingCallbacks{st: s}}
			s.SetCallbacks(e.rc)
			byID[s.id] = e
		}
		po := pairOpts{FreeSmall: o.freeSmall, QueueCap: o.queueCap}
		if o.callback {
			po.ListenCB = lcb
		}
		p := newEPair(po)
		n := len(o.streams)
		sent := make([][]byte, n)
		ids := make([]uint32, n)
		opened := make([]bool, n)
		var ths []*vrt.Thread
		for k := range o.streams {
			k := k
			start := vrt.GoProc
			if o.streams[k].lazy {
				start = vrt.GoLazy // (lazy from its creation: placing its first operation costs one deviation, not two)
			}
			ths = append(ths, start(fmt.Sprintf("writer%d", k), 1, func() {
				st, err := p.c.OpenStream()
				if err != nil {
					vrt.Failf("harness", "open: %v", err)
				}
				ids[k] = st.id
				opened[k] = true
				for i, sz := range o.streams[k].sizes {
					if o.streams[k].lazy && i > 0 {
						vrt.AnyMoment()
					}
					data := patBytes(int(st.id), len(sent[k]), sz)
					st.BufferWriter().WriteBytes(data)
					if err := st.Flush(false); err != nil {
						vrt.Failf("flush-error", "stream %d flush of %d bytes: %v", st.id, sz, err)
					}
					sent[k] = append(sent[k], data...)
				}
				if o.respond > 0 && k == 0 {
					got, err := st.BufferReader().ReadBytes(o.respond)
					if err != nil || !bytes.Equal(got, patBytes(1000+int(st.id), 0, o.respond)) {
						vrt.Failf("response", "client read of the response returned %x, %v", got, err)
					}
				}
				if o.streams[k].close {
					if o.streams[k].lazy {
						vrt.AnyMoment()
					}
					if err := st.Close(); err != nil {
						vrt.Failf("close-error", "close: %v", err)
					}
				}
			}))
		}
		if !o.callback {
			for k := range o.streams {
				ths = append(ths, vrt.GoProc(fmt.Sprintf("reader%d", k), 2, func() {
					st, err := p.s.AcceptStream()
					if err != nil {
						vrt.Failf("harness", "accept: %v", err)
					}
					// which writer is it? (the id is known once the writer opened it, which precedes its first flush)
					w := -1
					for j := range ids {
						if opened[j] && ids[j] == st.id {
							w = j
						}
					}
					if w < 0 {
						vrt.Failf("unknown-stream", "accepted stream %d that nobody opened", st.id)
					}
					total := 0
					for _, sz := range o.streams[w].sizes {
						total += sz
					}
					var got []byte
					for len(got) < total {
						b, err := st.BufferReader().ReadBytes(1)
						if err != nil {
							vrt.Failf("end-before-data", "stream %d: reader was told %v after %d of the %d bytes flushed before the close", st.id, err, len(got), total)
						}
						got = append(got, b...)
						// take whatever else is buffered, in one go
						if n := st.BufferReader().Len(); n > 0 {
							more, _ := st.BufferReader().ReadBytes(n)
							got = append(got, more...)
						}
						st.BufferReader().ReleasePreviousRead()
						if !bytes.HasPrefix(patBytes(int(st.id), 0, total), got) {
							vrt.Failf("foreign-or-reordered", "stream %d: received %x, flushed %x", st.id, got, patBytes(int(st.id), 0, total))
						}
					}
					if o.respond > 0 && w == 0 {
						st.BufferWriter().WriteBytes(patBytes(1000+int(st.id), 0, o.respond))
						if err := st.Flush(false); err != nil {
							vrt.Failf("flush-error", "server response: %v", err)
						}
					}
					if o.streams[w].close {
						if _, err := st.BufferReader().ReadBytes(1); err != ErrEndOfStream {
							vrt.Failf("eof", "stream %d: read after the last byte returned %v", st.id, err)
						}
					}
					st.Close()
				}))
			}
		}
		vrt.WaitThreads(ths...)
		vrt.WaitIdle(vrt.Second)
		out := ""
		if o.callback {
			for k := range o.streams {
				e := byID[ids[k]]
				if e == nil {
					vrt.Failf("never-accepted", "stream %d never surfaced on the server although %d bytes were flushed", ids[k], len(sent[k]))
				}
				if !bytes.HasPrefix(sent[k], e.rc.got) {
					vrt.Failf("foreign-or-reordered", "stream %d: OnData received %x, flushed %x", ids[k], e.rc.got, sent[k])
				}
				if e.rc.remote > 0 && e.rc.remoteAt < len(sent[k]) {
					vrt.Failf("known:callback-close-overtakes-data", "stream %d: OnRemoteClose was delivered after %d of the %d bytes flushed before the close had been offered to OnData (finally offered: %d)", ids[k], e.rc.remoteAt, len(sent[k]), len(e.rc.got))
				}
				if len(e.rc.got) != len(sent[k]) {
					vrt.Failf("known:callback-close-overtakes-data", "stream %d: %d of %d flushed bytes were ever offered to OnData (remote close seen: %d)", ids[k], len(e.rc.got), len(sent[k]), e.rc.remote)
				}
				if o.streams[k].close && e.rc.remote != 1 {
					vrt.Failf("no-remote-close", "stream %d: peer closed, OnRemoteClose x%d", ids[k], e.rc.remote)
				}
				out += fmt.Sprintf("s%d:%d/%d,r%d ", ids[k], len(e.rc.got), len(sent[k]), e.rc.remote)
			}
		}
		vrt.Outcome("ok " + out)
	}
}

func TestVerif_C07(t *testing.T) {
	mk := func(o c07Opts, b, bt int) bScenario {
		return bScenario{Name: o.name, Bound: b, BoundT: bt, Body: c07Body(o)}
	}
	w := newWorker(t, "C07")
	defer w.finish()
	if runHistories(w, "C07", 5, 6) {
		return
	}
	runBScenariosW(w, "C07", []bScenario{
		mk(c07Opts{name: "shm-shm-close", streams: []c07Stream{{sizes: []int{5, 20}, close: true}}}, 1, 2),
		mk(c07Opts{name: "shm-fallback-sticky-close", freeSmall: 2, streams: []c07Stream{{sizes: []int{5, 100, 4}, close: true}}}, 2, 3),
		mk(c07Opts{name: "fallback-close", freeSmall: 2, streams: []c07Stream{{sizes: []int{100}, close: true}}}, 2, 3),
		mk(c07Opts{name: "two-streams-mixed", freeSmall: 3, streams: []c07Stream{{sizes: []int{5, 60}, close: true}, {sizes: []int{7, 6}, close: true}}}, 1, 2),
		// a stream in fallback beside a stream that goes shm, then fallback, then closes; the second writer's operations may
		// each land at any moment of the first one's (a wake-up parked behind a busy connection, then data on the socket)
		mk(c07Opts{name: "fallback-stream-beside-lazy-shm-then-fallback", freeSmall: 2, streams: []c07Stream{{sizes: []int{100}}, {sizes: []int{5, 100}, close: true, lazy: true}}}, 1, 2),
		mk(c07Opts{name: "callback-fallback-stream-beside-lazy-shm-then-fallback", callback: true, freeSmall: 2, streams: []c07Stream{{sizes: []int{100}}, {sizes: []int{5, 100}, lazy: true}}}, 2, 3),
		// queue capacities that are not powers of two, several elements in the queue at once (three writers ahead of the consumer)
		mk(c07Opts{name: "three-streams-queue-cap3", queueCap: 3, streams: []c07Stream{{sizes: []int{5}}, {sizes: []int{6}}, {sizes: []int{7}, close: true}}}, 1, 2),
		mk(c07Opts{name: "callback-three-streams-queue-cap6", callback: true, queueCap: 6, streams: []c07Stream{{sizes: []int{5, 5}}, {sizes: []int{6, 6}}, {sizes: []int{7}}}}, 1, 2),
		mk(c07Opts{name: "request-response", streams: []c07Stream{{sizes: []int{5}, close: true}}, respond: 6}, 1, 2),
		mk(c07Opts{name: "callback-data-then-close", callback: true, streams: []c07Stream{{sizes: []int{5}, close: true}}}, 1, 2),
		mk(c07Opts{name: "callback-two-streams", callback: true, freeSmall: 3, streams: []c07Stream{{sizes: []int{5, 60}}, {sizes: []int{7}}}}, 1, 2),
	})
}
