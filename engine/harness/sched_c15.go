//go:build verif

package shmipc

import (
	"os"
	"encoding/json"
	"fmt"
	"strings"
	"testing"

	"github.com/cloudwego/shmipc-go/internal/vrt"
)

// C15 — the stream pool only hands out clean live streams and never leaks one.
//
// Real pair under the scheduler plus the REAL pool code of the session manager (SessionManager.GetStream /
// PutBack, streamPool.getOrOpenStream / putOrCloseStream / push / pop) on top of the pair's client session.
// (a) Histories: every sequence up to the tier's depth over the alphabet below, each operation run to
// quiescence on the default schedule. (b) Schedules: two callers doing Get / use / PutBack concurrently, every
// schedule within the deviation bound. The server echoes in callback mode.
// Oracles at every GetStream: the stream is open, its session alive, it holds no byte of an earlier use
// (receive buffer and pending list empty), nobody else holds it. At the end: the client's active-stream count
// equals streams held by callers + streams kept in the pool.

type c15World struct {
	p      *ePair
	sm     *SessionManager
	pool   *streamPool
	held   [2]*Stream
	lastPut *Stream
	viol   string
	gets   int
	racingPeerClose bool
}

func newC15World(capacity uint32, freeSmall int) *c15World {
	w := &c15World{}
	lcb := &listenCB{}
	lcb.onNew = func(s *Stream) {
		rc := &recordingCallbacks{st: s}
		rc.onData = func(r BufferReader) {
			b, err := r.ReadBytes(r.Len())
			if err != nil {
				return
			}
			cp := append([]byte{}, b...)
			r.ReleasePreviousRead()
			s.BufferWriter().WriteBytes(cp) // echo
			s.Flush(false)
		}
		s.SetCallbacks(rc)
	}
	w.p = newEPair(pairOpts{ListenCB: lcb, FreeSmall: freeSmall})
	w.pool = newStreamPool(capacity)
	w.pool.session.Store(w.p.c)
	cfg := DefaultSessionManagerConfig()
	cfg.MaxStreamNum = int(capacity)
	w.sm = &SessionManager{config: cfg, pools: []*streamPool{w.pool}}
	w.p.c.manager = w.sm
	return w
}

func (w *c15World) pooled() int { return int(w.pool.tail - w.pool.head) }

func (w *c15World) oldestPooled() *Stream {
	if w.pooled() == 0 {
		return nil
	}
	return w.pool.streams[w.pool.head%uint64(w.pool.capacity)]
}

// get performs GetStream for a caller and checks the hand-out oracles (runs on a client-process thread).
func (w *c15World) get(c int) {
	st, err := w.sm.GetStream()
	if err != nil {
		vrt.Count("get_error")
		return
	}
	w.gets++
	if st == nil {
		vrt.Failf("nil-stream", "GetStream returned (nil, nil)")
	}
	if !st.IsOpen() && !w.racingPeerClose {
		// (with a peer that closes streams concurrently the stream may legitimately be closed the moment after it
		// was handed out: the open check is only meaningful when nothing races with the hand-out)
		vrt.Failf("not-open", "GetStream handed out stream %d in state %d", st.id, st.getStreamState())
	}
	if st.Session().IsClosed() {
		vrt.Failf("dead-session", "GetStream handed out a stream of a closed session")
	}
	if w.held[1-c] == st {
		vrt.Failf("double-handout", "stream %d handed to two callers at once", st.id)
	}
	st.pendingData.Lock()
	npend := len(st.pendingData.unread)
	st.pendingData.Unlock()
	if st.recvBuf.Len() != 0 || npend != 0 {
		vrt.Failf("dirty", "GetStream handed out stream %d carrying %d buffered bytes and %d pending messages of an earlier use", st.id, st.recvBuf.Len(), npend)
	}
	w.held[c] = st
}

func (w *c15World) serverStream(st *Stream) *Stream {
	if st == nil {
		return nil
	}
	return w.p.s.getStreamById(st.id)
}

// op runs one history operation; ops on the client process run in a proc-1 thread, server ops in a proc-2 thread.
func (w *c15World) op(o string) bool {
	c := 0
	if len(o) > 1 && o[1] == 'b' {
		c = 1
	}
	st := w.held[c]
	switch o[0] {
	case 'G':
		if st != nil {
			return false
		}
		t := vrt.GoProc("get", 1, func() { w.get(c) })
		vrt.WaitThreads(t)
	case 'W', 'F': // write + flush (F: larger than the free shared memory => socket fallback)
		if st == nil {
			return false
		}
		n := 5
		if o[0] == 'F' {
			n = 100
		}
		t := vrt.GoProc("write", 1, func() { c09Flush(st, int(st.id), 0, n) })
		vrt.WaitThreads(t)
	case 'U': // a full use: write, wait for the echo, read it
		if st == nil {
			return false
		}
		t := vrt.GoProc("use", 1, func() {
			if c09Flush(st, int(st.id), 0, 5) == nil {
				st.SetReadDeadline(vrt.Now().Add(vrt.Second))
				st.BufferReader().ReadBytes(5)
				st.BufferReader().ReleasePreviousRead()
			}
		})
		vrt.WaitThreads(t)
	case 'R': // read everything that has arrived
		if st == nil {
			return false
		}
		t := vrt.GoProc("read", 1, func() {
			st.pendingData.moveTo(st.recvBuf)
			if n := st.recvBuf.Len(); n > 0 {
				st.BufferReader().ReadBytes(n)
			}
		})
		vrt.WaitThreads(t)
	case 'P':
		if st == nil {
			return false
		}
		t := vrt.GoProc("put", 1, func() { w.sm.PutBack(st) })
		vrt.WaitThreads(t)
		w.held[c] = nil
		w.lastPut = st
	case 'X': // the peer closes its end of the caller's stream (or of the stream put back last; "Xo": of the OLDEST pooled stream)
		tgt := st
		if tgt == nil {
			tgt = w.lastPut
		}
		if o == "Xo" {
			if tgt = w.oldestPooled(); tgt == nil {
				return false
			}
		}
		ss := w.serverStream(tgt)
		if ss == nil {
			return false
		}
		t := vrt.GoProc("peer-close", 2, func() { ss.Close() })
		vrt.WaitThreads(t)
	case 'L': // late response on the stream that was put back last ("Lo": on the oldest pooled stream)
		lp := w.lastPut
		if o == "Lo" {
			lp = w.oldestPooled()
		}
		ss := w.serverStream(lp)
		if ss == nil || lp == w.held[0] || lp == w.held[1] {
			return false
		}
		t := vrt.GoProc("late-response", 2, func() { c09Flush(ss, 77, 0, 3) })
		vrt.WaitThreads(t)
	case 'K': // the session is lost
		if w.p.c.IsClosed() {
			return false
		}
		t := vrt.GoProc("kill", 0, func() { w.p.killProc(2) })
		vrt.WaitThreads(t)
	default:
		return false
	}
	vrt.WaitIdle(vrt.Second)
	return true
}

func (w *c15World) finish(what string) {
	held := 0
	for _, h := range w.held {
		if h != nil && h.getStreamState() != uint32(streamClosed) {
			held++
		}
	}
	if w.p.c.IsClosed() {
		return // a lost session has no active streams to account for
	}
	if a := w.p.c.GetActiveStreamCount(); a != held+w.pooled() {
		vrt.Failf("known:pool-drops-without-close", "%s: the session counts %d active streams, callers hold %d and the pool keeps %d", what, a, held, w.pooled())
	}
	// completion (C09's view of pooled streams): give everything back, empty the pool, close the server ends: no buffer stays allocated
	t := vrt.GoProc("finish-client", 1, func() {
		for c, h := range w.held {
			if h != nil {
				w.sm.PutBack(h)
				w.held[c] = nil
			}
		}
		for st := w.pool.pop(); st != nil; st = w.pool.pop() {
			st.Close()
		}
	})
	vrt.WaitThreads(t)
	vrt.WaitIdle(vrt.Second)
	t = vrt.GoProc("finish-server", 2, func() {
		w.p.s.streamLock.Lock()
		rest := vrt.SortedKeys(w.p.s.streams)
		var ss []*Stream
		for _, id := range rest {
			ss = append(ss, w.p.s.streams[id])
		}
		w.p.s.streamLock.Unlock()
		for _, st := range ss {
			st.Close()
		}
	})
	vrt.WaitThreads(t)
	vrt.WaitIdle(vrt.Second)
	if w.p.c.IsClosed() || w.p.s.IsClosed() {
		return
	}
	if n := w.p.inUse(); n != 0 {
		vrt.Failf("leak", "%s: every stream was given back / closed on both ends, %d buffers are still allocated", what, n)
	}
}

var c15Alphabet = []string{"Ga", "Gb", "Ua", "Wa", "Ra", "Pa", "Pb", "Xa", "L", "Fa", "K"} // ("Ub" appears in fixed prefixes only)

func c15HistoryBody(hist []string, capacity uint32) func() {
	return func() {
		w := newC15World(capacity, 3)
		for _, o := range hist {
			if !w.op(o) {
				vrt.Outcome("skip")
				return
			}
		}
		w.finish(strings.Join(hist, " "))
		vrt.Outcome(fmt.Sprintf("gets=%d pooled=%d", w.gets, w.pooled()))
	}
}

func c15ConcurrentBody(capacity uint32, peerCloses bool) func() {
	return func() {
		w := newC15World(capacity, 0)
		w.racingPeerClose = peerCloses
		var ths []*vrt.Thread
		for c := 0; c < 2; c++ {
			c := c
			ths = append(ths, vrt.GoProc(fmt.Sprintf("caller%d", c), 1, func() {
				for round := 0; round < 2; round++ {
					w.get(c)
					st := w.held[c]
					if st == nil {
						return
					}
					if c09Flush(st, int(st.id), 0, 5) == nil {
						st.SetReadDeadline(vrt.Now().Add(vrt.Second))
						st.BufferReader().ReadBytes(5)
					}
					w.held[c] = nil
					w.sm.PutBack(st)
				}
			}))
		}
		if peerCloses {
			ths = append(ths, vrt.GoProc("peer-closer", 2, func() {
				vrt.Point("wait-stream", func() bool { return w.p.s.GetActiveStreamCount() > 0 })
				vrt.AnyMoment()
				w.p.s.streamLock.Lock()
				var victim *Stream
				for _, s := range w.p.s.streams {
					if victim == nil || s.id < victim.id {
						victim = s
					}
				}
				w.p.s.streamLock.Unlock()
				if victim != nil {
					victim.Close()
				}
			}))
		}
		vrt.WaitThreads(ths...)
		vrt.WaitIdle(vrt.Second)
		w.finish("concurrent callers")
		vrt.Outcome(fmt.Sprintf("gets=%d pooled=%d", w.gets, w.pooled()))
	}
}

// c15TogetherBody: both callers hold a used stream (set up on the default schedule); then they act at the same time:
// both PutBack (capacity boundary of the pool ring), or one PutBack while the other GetStream. Afterwards the pool is
// inspected (no more streams than its capacity, no stream twice) and emptied by two GetStream calls.
func c15TogetherBody(capacity uint32, second string) func() {
	return func() {
		w := newC15World(capacity, 0)
		vrt.Quiet(true)
		for _, o := range []string{"Ga", "Ua", "Gb", "Ub"} {
			if !w.op(o) {
				vrt.Failf("harness", "setup operation %s not applicable", o)
			}
		}
		if second == "get" {
			w.op("Pb") // caller b starts without a stream, one stream idle in the pool
		}
		vrt.Quiet(false)
		sa, sb := w.held[0], w.held[1]
		if second == "callback-running" {
			// the caller uses its pooled stream in callback mode: the answer has arrived, OnData is running (it takes 5 virtual
			// ms and consumes nothing) - at that moment the caller gives the stream back. It must end up kept or closed.
			w.op("Pb")
			rc := &recordingCallbacks{st: sa}
			rc.onData = func(r BufferReader) { vrt.Sleep(5 * ms) }
			t1 := vrt.GoProc("caller0", 1, func() {
				sa.SetCallbacks(rc)
				c09Flush(sa, int(sa.id), 0, 5)
				vrt.Point("wait-callback", func() bool { return rc.running > 0 || rc.calls > 0 })
				w.held[0] = nil
				w.sm.PutBack(sa)
			})
			vrt.WaitThreads(t1)
			vrt.WaitIdle(vrt.Second)
			if a := w.p.c.GetActiveStreamCount(); a != w.pooled() {
				vrt.Failf("known:pool-drops-without-close", "a stream given back while its data callback was running: the session counts %d active streams, the pool keeps %d, nobody holds one (stream state %d)", a, w.pooled(), sa.getStreamState())
			}
			w.finish("give-back during a running callback")
			vrt.Outcome(fmt.Sprintf("callback-running pooled=%d calls=%d", w.pooled(), rc.calls))
			return
		}
		if second == "session-closed" {
			// the client session is closed (Session.Close has RETURNED) - its teardown, which closes the streams, is posted
			// to the event loop and may not have run yet; then the caller gives its stream back and asks for one
			closed := false
			t1 := vrt.GoProc("session-closer", 1, func() { w.p.c.Close(); closed = true })
			t2 := vrt.GoProc("caller0", 1, func() {
				vrt.Point("wait-closed", func() bool { return closed })
				w.held[0] = nil
				w.sm.PutBack(sa)
				w.get(0) // (the hand-out oracle: not a stream of a closed session)
			})
			vrt.WaitThreads(t1, t2)
			vrt.WaitIdle(vrt.Second)
			vrt.Outcome(fmt.Sprintf("closed-session gets=%d held=%v", w.gets, w.held[0] != nil))
			return
		}
		ths := []*vrt.Thread{vrt.GoProc("caller0", 1, func() { w.held[0] = nil; w.sm.PutBack(sa) })}
		if second == "put" {
			ths = append(ths, vrt.GoProc("caller1", 1, func() { w.held[1] = nil; w.sm.PutBack(sb) }))
		} else {
			ths = append(ths, vrt.GoProc("caller1", 1, func() { w.get(1) }))
		}
		vrt.WaitThreads(ths...)
		vrt.WaitIdle(vrt.Second)
		if n := w.pooled(); n > int(capacity) {
			vrt.Failf("pool-overflow", "the pool of capacity %d holds %d streams", capacity, n)
		}
		seen := map[*Stream]bool{}
		for i := w.pool.head; i < w.pool.tail; i++ {
			st := w.pool.streams[i%uint64(w.pool.capacity)]
			if seen[st] {
				vrt.Failf("double-handout", "stream %d sits in the pool twice", st.id)
			}
			seen[st] = true
			if st == w.held[0] || st == w.held[1] {
				vrt.Failf("double-handout", "stream %d is in the pool and held by a caller", st.id)
			}
		}
		if a := w.p.c.GetActiveStreamCount(); !w.p.c.IsClosed() {
			held := 0
			for _, h := range w.held {
				if h != nil {
					held++
				}
			}
			if a != held+w.pooled() {
				vrt.Failf("known:pool-drops-without-close", "after concurrent %s: the session counts %d active streams, callers hold %d and the pool keeps %d", second, a, held, w.pooled())
			}
		}
		kept := ""
		for i := w.pool.head; i < w.pool.tail; i++ {
			switch w.pool.streams[i%uint64(w.pool.capacity)] {
			case sa:
				kept += "a"
			case sb:
				kept += "b"
			default:
				kept += "?"
			}
		}
		// empty the pool through the public API: no stream may come out twice
		for c := 0; c < 2; c++ {
			if w.held[c] == nil {
				c := c
				t := vrt.GoProc("get-after", 1, func() { w.get(c) })
				vrt.WaitThreads(t)
				vrt.WaitIdle(vrt.Second)
			}
		}
		w.finish("concurrent " + second)
		vrt.Outcome(fmt.Sprintf("kept=%s gets=%d", kept, w.gets))
	}
}

func TestVerif_C15(t *testing.T) {
	w := newWorker(t, "C15")
	defer w.finish()
	depth := 5
	if w.thorough() {
		depth = 6
	}
	opts := vrt.Options{Bound: 0, StepLimit: 50000}
	if w.replay != nil && strings.HasPrefix(w.replay.Scenario, "C15/hist") {
		var rp struct {
			Hist []string `json:"hist"`
			Cap  uint32   `json:"cap"`
		}
		json.Unmarshal(w.replay.Params, &rp)
		w.doReplay(w.replay.Scenario, opts, c15HistoryBody(rp.Hist, rp.Cap))
		return
	}
	if h := os.Getenv("VERIF_C15_HIST"); h != "" {
		capa := uint32(1)
		if os.Getenv("VERIF_C15_CAP") == "2" {
			capa = 2
		}
		x := vrt.RunOnce(opts, nil, c15HistoryBody(strings.Fields(h), capa))
		fmt.Printf("DEBUG hist %q: fail=%+v steps=%d\n", h, x.Fail, len(x.Steps))
		return
	}
	// (a) histories: all sequences; a history whose prefix was skipped (disabled op) is not extended
	res := &vrt.Result{Name: "C15/histories", Exhaustive: true, Outcomes: map[string]int64{}, Counts: map[string]int64{}, FailCount: map[string]int64{}}
	if w.replay == nil {
		n := 0
		for _, capacity := range []uint32{1, 2} {
			frontier := [][]string{{}}
			for d := 0; d < depth; d++ {
				var next [][]string
				for _, h := range frontier {
					for _, o := range c15Alphabet {
						if len(h) == 0 && o[0] != 'G' {
							continue // nothing to do before the first GetStream
						}
						hist := append(append([]string{}, h...), o)
						n++
						mine := n%w.shardN == w.shardI
						// every shard must know which histories are extendable: enabledness is cheap to decide statically
						if !c15Enabled(hist) {
							continue
						}
						next = append(next, hist)
						if !mine || w.expired() {
							if w.expired() {
								res.Exhaustive, res.CapHit = false, "deadline"
							}
							continue
						}
						x := vrt.RunOnce(opts, nil, c15HistoryBody(hist, capacity))
						res.Execs++
						res.Transitions += int64(len(x.Steps))
						if x.Fail != nil {
							x.Fail.Params = map[string]interface{}{"hist": hist, "cap": capacity}
							res.FailCount[x.Fail.Sig]++
							if res.FailCount[x.Fail.Sig] == 1 {
								x.Fail.Msg = fmt.Sprintf("history %v (pool capacity %d): %s", hist, capacity, x.Fail.Msg)
								res.Failures = append(res.Failures, x.Fail)
							}
						}
						res.Outcomes[fmt.Sprintf("depth%d", len(hist))]++
					}
				}
				frontier = next
			}
			// histories from a non-initial state: two streams idle in the pool (capacity 2), then every sequence of
			// depth-2 further operations, the alphabet extended by what can happen to the OLDER of the pooled streams
			if capacity == 2 {
				pre := []string{"Ga", "Ua", "Gb", "Ub", "Pa", "Pb"} // (used once each: the server knows a stream from its first message on)
				alpha2 := append(append([]string{}, c15Alphabet...), "Xo", "Lo")
				frontier := [][]string{pre}
				for d := 0; d < depth-2; d++ {
					var next [][]string
					for _, h := range frontier {
						for _, o := range alpha2 {
							hist := append(append([]string{}, h...), o)
							n++
							mine := n%w.shardN == w.shardI
							if !c15Enabled(hist) {
								continue
							}
							next = append(next, hist)
							if !mine || w.expired() {
								if w.expired() {
									res.Exhaustive, res.CapHit = false, "deadline"
								}
								continue
							}
							x := vrt.RunOnce(opts, nil, c15HistoryBody(hist, capacity))
							res.Execs++
							res.Transitions += int64(len(x.Steps))
							if x.Fail != nil {
								x.Fail.Params = map[string]interface{}{"hist": hist, "cap": capacity}
								res.FailCount[x.Fail.Sig]++
								if res.FailCount[x.Fail.Sig] == 1 {
									x.Fail.Msg = fmt.Sprintf("history %v (pool capacity %d): %s", hist, capacity, x.Fail.Msg)
									res.Failures = append(res.Failures, x.Fail)
								}
							}
							res.Outcomes[fmt.Sprintf("two-pooled+depth%d", len(hist)-len(pre))]++
						}
					}
					frontier = next
				}
			}
			// a few longer histories around the pool's capacity (two callers returning and re-taking streams)
			for _, hs := range []string{"Ga Gb Pa Pb Ga Gb", "Ga Gb Ua Pa Pb Gb Ga", "Ga Ua Pa Gb Ua Pb Ga Gb", "Ga Gb Pb Pa Gb Ga Pa Pb"} {
				n++
				if n%w.shardN != w.shardI {
					continue
				}
				hist := strings.Fields(hs)
				x := vrt.RunOnce(opts, nil, c15HistoryBody(hist, capacity))
				res.Execs++
				res.Transitions += int64(len(x.Steps))
				res.Outcomes["extra"]++
				if x.Fail != nil {
					x.Fail.Params = map[string]interface{}{"hist": hist, "cap": capacity}
					res.FailCount[x.Fail.Sig]++
					if res.FailCount[x.Fail.Sig] == 1 {
						x.Fail.Msg = fmt.Sprintf("history %v (pool capacity %d): %s", hist, capacity, x.Fail.Msg)
						res.Failures = append(res.Failures, x.Fail)
					}
				}
			}
		}
		if len(w.out.Samples) == 0 {
			w.out.Samples = append(w.out.Samples, map[string]interface{}{"history": []string{"Ga", "Wa", "Pa", "L", "Gb"}, "pool_capacity": 1})
		}
		w.out.Scenarios = append(w.out.Scenarios, &scenarioResult{Name: "C15/hist", Result: res})
	}
	// (b) schedules
	b := 1
	if w.thorough() {
		b = 2
	}
	for _, sc := range []struct {
		name string
		body func()
	}{
		{"C15/concurrent-cap1", c15ConcurrentBody(1, false)},
		{"C15/concurrent-cap2-peer-closes", c15ConcurrentBody(2, true)},
		{"C15/putback-together-cap1", c15TogetherBody(1, "put")},
		{"C15/putback-together-cap2", c15TogetherBody(2, "put")},
		{"C15/putback-while-get-cap1", c15TogetherBody(1, "get")},
		{"C15/putback-get-after-session-close", c15TogetherBody(2, "session-closed")},
		{"C15/putback-while-callback-runs", c15TogetherBody(2, "callback-running")},
	} {
		o := vrt.Options{Bound: b, StepLimit: 50000, ShardI: w.shardI, ShardN: w.shardN}
		w.explore(fmt.Sprintf("%s-bound%d", sc.name, b), nil, o, sc.body)
	}
}

// c15Enabled decides statically whether every operation of the history is applicable (callers hold at most one
// stream; use/put need a held stream; L and X-without-holder need a stream that was put back).
func c15Enabled(h []string) bool {
	held := [2]bool{}
	put := false
	killed := false
	for _, o := range h {
		c := 0
		if len(o) > 1 && o[1] == 'b' {
			c = 1
		}
		switch o[0] {
		case 'G':
			if held[c] {
				return false
			}
			held[c] = true // (GetStream may fail after K; the dynamic run then simply holds nothing)
		case 'W', 'F', 'R', 'U':
			if !held[c] {
				return false
			}
		case 'P':
			if !held[c] {
				return false
			}
			held[c] = false
			put = true
		case 'X':
			if !held[c] && !put {
				return false
			}
		case 'L':
			if !put {
				return false
			}
		case 'K':
			if killed {
				return false
			}
			killed = true
		}
	}
	return true
}
