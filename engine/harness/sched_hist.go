//go:build verif

package shmipc

import (
	"bytes"
	"encoding/json"
	"fmt"
	"os"
	"strings"
	"time"

	"github.com/cloudwego/shmipc-go/internal/vrt"
)

// Stream histories: an explicit-state breadth-first search over OPERATION HISTORIES on a real session pair.
//
// A state is the history that reaches it (live sessions cannot be copied: a successor is computed by replaying the
// shortest history on a fresh pair and appending one operation). Every operation runs to quiescence on the default
// schedule (the schedules are the business of the deviation-bounded scenarios). States are merged on a key taken from
// the REAL objects (per stream end: state, fallback flag, shape of the receive buffer / pending list / pinned list,
// callbacks seen; allocator in-use count; active-stream tables) plus the model's outstanding byte counts. Absolute
// stream positions and the identity of the allocated slots are dropped from the key: the code under test never
// branches on payload values, and the allocator is a free list (which slot is handed out does not change what a
// later operation does) - merged states therefore have the same futures as far as the oracles below can observe.
//
// Alphabet (2 streams, both ends): open; flush 5 bytes (one slice) / 40 bytes (a chain of three slices) / 300 bytes
// (more than the free shared memory: socket fallback, sticky afterwards); read one byte / everything that is
// outstanding; read with nothing outstanding (must time out, or report the end of the stream once the peer closed);
// ReleasePreviousRead; Close (also repeated). Server ends are synchronous (mode 0) or in callback mode (mode 1).
//
// Oracles, each owned by one property (a check only evaluates its own):
//   C07  every byte a reader gets is its own stream's and direction's next byte; a read is never refused while
//        flushed bytes are outstanding (end of stream / closed only after every flushed byte was offered).
//   C09  at the end of every history every stream is closed on both ends: no buffer stays allocated.
//   C10  states only move forward; after a local Close every operation fails with a closed-stream error and the
//        stream is not active; the peer, once drained, reads end-of-stream and its Flush fails; Close repeated is
//        harmless; in callback mode exactly one close callback per end.

type hEnd struct {
	st     *Stream
	closed bool // Close was called on this end
	maxSt  int  // rank of the furthest state seen
	rc     *recordingCallbacks
	firstClose string // which closure this end learnt first: "local" | "remote"
}

type hWorld struct {
	p      *ePair
	prop   string
	mode   int
	ids    [2]uint32
	opened [2]bool
	end    [2][2]*hEnd // [stream][side]; side 0 = client, 1 = server
	sent   [2][2]int   // bytes flushed successfully by that side
	got    [2][2]int   // bytes of the peer's that side consumed
	srvNew map[uint32]*Stream
	hist   string
	dead   bool // a session was closed (terminal operation)
	pins   [2][2][]hPin // zero-copy read results not yet released, per stream and side
}

// hPin is a slice returned by ReadBytes that the reader has not released yet (C08: it must keep its contents).
type hPin struct {
	got  []byte
	want []byte
	pos  int
}

func (w *hWorld) own(prop string) bool { return w.prop == prop || w.prop == "ALL" }

func (w *hWorld) fail(prop, sig, format string, a ...interface{}) {
	if w.own(prop) {
		vrt.Failf(sig, "history [%s]: %s", w.hist, fmt.Sprintf(format, a...))
	}
}

func stateRank(s uint32) int {
	switch streamState(s) {
	case streamOpened:
		return 0
	case streamHalfClosed, streamLocalHalfClosed:
		return 1
	}
	return 2
}

func newHWorld(prop string, mode int) *hWorld {
	w := &hWorld{prop: prop, mode: mode, srvNew: map[uint32]*Stream{}}
	po := pairOpts{FreeSmall: 5}
	if mode == 1 {
		lcb := &listenCB{}
		lcb.onNew = func(s *Stream) {
			rc := &recordingCallbacks{st: s}
			s.SetCallbacks(rc)
			w.srvNew[s.id] = s
		}
		po.ListenCB = lcb
	}
	w.p = newEPair(po)
	return w
}

func hClosedErr(err error) bool { return err == ErrStreamClosed || err == ErrEndOfStream }

func hKey(i, side int) int { return 10*i + side + 1 }

// serverEnd finds the server's end of stream i once the server knows the stream.
func (w *hWorld) bind(i int) {
	if w.end[i][1] != nil || !w.opened[i] {
		return
	}
	st := w.p.s.getStreamById(w.ids[i])
	if st == nil {
		return
	}
	e := &hEnd{st: st}
	if w.mode == 1 {
		if cb := st.getCallbacks(); cb != nil {
			e.rc, _ = cb.(*recordingCallbacks)
		}
	}
	w.end[i][1] = e
}

func (w *hWorld) run(side int, f func()) {
	t := vrt.GoProc("op", side+1, f)
	vrt.WaitThreads(t)
	vrt.WaitIdle(vrt.Second)
}

// op runs one operation; false = not applicable in this state (the history is not extended).
func (w *hWorld) op(o string) bool {
	if w.dead {
		return false
	}
	if o[0] == 'O' {
		i := int(o[1] - '0')
		if w.opened[i] || (i == 1 && !w.opened[0]) {
			return false
		}
		w.run(0, func() {
			st, err := w.p.c.OpenStream()
			if err != nil {
				vrt.Failf("harness", "OpenStream: %v", err)
			}
			w.end[i][0] = &hEnd{st: st}
			w.ids[i] = st.id
			w.opened[i] = true
		})
		return true
	}
	if o[0] == 'Z' {
		// Session.Close of one side: terminal. Every stream end the other operations left open, half closed or closed
		// must have had exactly one close callback by the time both sessions are down.
		if !w.opened[0] {
			return false
		}
		for i := 0; i < 2; i++ {
			w.bind(i)
		}
		sess, side := w.p.c, 0
		if o[1] == 's' {
			sess, side = w.p.s, 1
		}
		w.run(side, func() { sess.Close() })
		w.dead = true
		if !w.p.c.IsClosed() || !w.p.s.IsClosed() {
			w.fail("C10", "session-close-not-propagated", "%s: after Session.Close at quiescence: client closed %v, server closed %v", o, w.p.c.IsClosed(), w.p.s.IsClosed())
		}
		for i := 0; i < 2; i++ {
			for sd := 0; sd < 2; sd++ {
				e := w.end[i][sd]
				if e == nil {
					continue
				}
				if s := e.st.getStreamState(); s != uint32(streamClosed) {
					w.fail("C10", "stream-open-after-session-close", "%s: stream %d side %d is in state %d after its session closed", o, i, sd, s)
				}
				if e.rc != nil && e.rc.local+e.rc.remote != 1 {
					w.fail("C10", "close-callbacks", "%s: stream %d server end (first closure known before: %q): OnLocalClose x%d, OnRemoteClose x%d after the session closed", o, i, e.firstClose, e.rc.local, e.rc.remote)
				}
			}
		}
		return true
	}
	side, i := 0, int(o[2]-'0')
	if o[1] == 's' {
		side = 1
	}
	if !w.opened[i] {
		return false
	}
	w.bind(i)
	e, peer := w.end[i][side], w.end[i][1-side]
	if e == nil {
		return false
	}
	st := e.st
	avail := w.sent[i][1-side] - w.got[i][side]
	peerClosed := peer != nil && peer.closed
	switch o[0] {
	case 'w', 'm', 'f':
		n := map[byte]int{'w': 5, 'm': 40, 'f': 300}[o[0]]
		var err error
		w.run(side, func() {
			st.BufferWriter().WriteBytes(patBytes(hKey(i, side), w.sent[i][side], n))
			err = st.Flush(false)
		})
		switch {
		case e.closed:
			if err != ErrStreamClosed {
				w.fail("C10", "write-after-close", "%s: Flush on a stream closed locally returned %v", o, err)
			}
		case peerClosed:
			if err == nil {
				w.fail("C10", "send-after-peer-close", "%s: the peer closed the stream (and this end has been told), Flush still succeeded", o)
			}
		default:
			if err != nil {
				vrt.Count("flush-error:" + err.Error())
				w.fail("C07", "flush-error", "%s: Flush of %d bytes on an open stream failed: %v", o, n, err)
			} else {
				w.sent[i][side] += n
			}
		}
	case 'r', 'R', 'e':
		if side == 1 && w.mode == 1 {
			return false // the callback reads
		}
		n := 1
		switch o[0] {
		case 'r':
			if avail < 1 && !e.closed {
				return false
			}
		case 'R':
			if avail < 2 || e.closed {
				return false
			}
			n = avail
		case 'e':
			if avail != 0 || e.closed {
				return false
			}
		}
		var b, raw []byte
		var err error
		w.run(side, func() {
			st.SetReadDeadline(vrt.Now().Add(20 * ms))
			var rb []byte
			rb, err = st.BufferReader().ReadBytes(n)
			b = append([]byte{}, rb...)
			raw = rb
		})
		switch {
		case e.closed:
			if !hClosedErr(err) {
				w.fail("C10", "read-after-close", "%s: read on a stream closed locally returned %d bytes, %v", o, len(b), err)
			}
		case avail >= n:
			if err != nil {
				w.fail("C07", "end-before-data", "%s: %d flushed bytes are outstanding, ReadBytes(%d) returned %v", o, avail, n, err)
				return true
			}
			want := patBytes(hKey(i, 1-side), w.got[i][side], n)
			if !bytes.Equal(b, want) {
				w.fail("C07", "foreign-or-reordered", "%s: read %x, the stream's next bytes are %x", o, b, want)
			}
			w.pins[i][side] = append(w.pins[i][side], hPin{got: raw, want: want, pos: w.got[i][side]})
			w.got[i][side] += n
		default: // nothing outstanding
			if peerClosed {
				if err != ErrEndOfStream {
					w.fail("C10", "no-eof", "%s: the peer closed and everything was read, ReadBytes returned %d bytes, %v", o, len(b), err)
				}
			} else if err != ErrTimeout {
				w.fail("C07", "read-invented", "%s: nothing is outstanding and the peer is open, ReadBytes returned %d bytes, %v", o, len(b), err)
			}
		}
	case 'l':
		if (side == 1 && w.mode == 1) || e.closed {
			return false
		}
		w.run(side, func() { st.BufferReader().ReleasePreviousRead() })
		w.pins[i][side] = nil
	case 'x':
		var err error
		w.run(side, func() { err = st.Close() })
		if err != nil {
			w.fail("C10", "close-error", "%s: Close returned %v", o, err)
		}
		if !e.closed && e.firstClose == "" {
			e.firstClose = "local"
		}
		e.closed = true
		w.pins[i][side] = nil
	default:
		return false
	}
	w.invariants(o)
	return true
}

// checkPins: every unreleased read result still holds the bytes it was returned with.
func (w *hWorld) checkPins(after string) {
	for i := 0; i < 2; i++ {
		for side := 0; side < 2; side++ {
			for _, pn := range w.pins[i][side] {
				if !bytes.Equal(pn.got, pn.want) {
					w.fail("C08", "pin-invalidated", "after %s: the %d bytes ReadBytes returned at position %d of stream %d side %d (not released since) now read %x, were %x", after, len(pn.want), pn.pos, i, side, pn.got, pn.want)
				}
			}
		}
	}
}

// adversary allocates every free buffer, fills it with 0xEE and recycles it: what was handed back too early is overwritten.
func (w *hWorld) adversary() {
	w.run(0, func() {
	  // (twice: the free list never hands out its last element, and a buffer that was just recycled IS the last one)
	  for round := 0; round < 2; round++ {
		var got []*bufferSlice
		for _, l := range w.p.bm.lists {
			for {
				s, err := l.pop()
				if err != nil {
					break
				}
				for k := range s.data {
					s.data[k] = 0xEE
				}
				got = append(got, s)
			}
		}
		for _, s := range got {
			w.p.bm.recycleBuffer(s)
		}
	  }
	})
}

// invariants are evaluated in every reached (quiescent) state.
func (w *hWorld) invariants(after string) {
	w.checkPins(after)
	for i := 0; i < 2; i++ {
		if !w.opened[i] {
			continue
		}
		w.bind(i)
		for side := 0; side < 2; side++ {
			e := w.end[i][side]
			if e == nil {
				continue
			}
			peer := w.end[i][1-side]
			s := e.st.getStreamState()
			r := stateRank(s)
			if r < e.maxSt {
				w.fail("C10", "state-went-back", "after %s: stream %d side %d is in state %d after having been further", after, i, side, s)
			}
			e.maxSt = r
			sess := w.p.c
			if side == 1 {
				sess = w.p.s
			}
			if e.closed {
				if s != uint32(streamClosed) {
					w.fail("C10", "close-not-final", "after %s: Close was called on stream %d side %d, at quiescence its state is %d", after, i, side, s)
				}
				if sess.getStreamById(e.st.id) == e.st {
					w.fail("C10", "closed-still-active", "after %s: stream %d side %d is closed and still in the session's table", after, i, side)
				}
			} else if peer != nil && peer.closed {
				if e.firstClose == "" {
					e.firstClose = "remote"
				}
				if s == uint32(streamOpened) {
					w.fail("C10", "peer-close-not-seen", "after %s: stream %d: the peer closed, at quiescence side %d still has it open", after, i, side)
				}
			}
			if e.rc != nil {
				if e.rc.maxRun > 1 {
					w.fail("C10", "ondata-reentered", "stream %d: OnData ran %d times at once", i, e.rc.maxRun)
				}
				want := patBytes(hKey(i, 0), 0, w.sent[i][0])
				if !bytes.HasPrefix(want, e.rc.got) {
					w.fail("C07", "foreign-or-reordered", "after %s: stream %d: OnData was offered %x, flushed %x", after, i, e.rc.got, want)
				}
				if !e.closed && len(e.rc.got) != len(want) {
					w.fail("C07", "not-offered", "after %s: stream %d: %d of the %d flushed bytes were offered to OnData at quiescence", after, i, len(e.rc.got), len(want))
				}
				w.got[i][1] = len(e.rc.got)
				nl, nr := 0, 0
				switch e.firstClose {
				case "local":
					nl = 1
				case "remote":
					nr = 1
				}
				if e.rc.local != nl || e.rc.remote != nr {
					w.fail("C10", "close-callbacks", "after %s: stream %d server end (first closure known: %q): OnLocalClose x%d, OnRemoteClose x%d", after, i, e.firstClose, e.rc.local, e.rc.remote)
				}
			}
		}
	}
}

// key of the reached state (see the file comment for what is dropped and why).
func (w *hWorld) key() string {
	var b strings.Builder
	shape := func(l *linkedBuffer) {
		if l == nil {
			b.WriteString("nil")
			return
		}
		fmt.Fprintf(&b, "L%d", l.len)
		if l.sliceList != nil {
			for s := l.sliceList.front(); s != nil; s = s.next() {
				fmt.Fprintf(&b, "(%d:%d-%d%v)", s.cap, s.readIndex, s.writeIndex, s.isFromShm)
			}
		}
		if l.pinnedList != nil {
			fmt.Fprintf(&b, "p%d", l.pinnedList.size())
		}
		fmt.Fprintf(&b, "%v", l.currentPinned)
	}
	for i := 0; i < 2; i++ {
		fmt.Fprintf(&b, "|S%d:%v", i, w.opened[i])
		if !w.opened[i] {
			continue
		}
		w.bind(i)
		for side := 0; side < 2; side++ {
			e := w.end[i][side]
			if e == nil {
				b.WriteString("/-")
				continue
			}
			st := e.st
			fmt.Fprintf(&b, "/st%d,c%v,fb%v,out%d,", st.getStreamState(), e.closed, st.inFallbackState, w.sent[i][1-side]-w.got[i][side])
			shape(st.recvBuf)
			b.WriteString(",s")
			shape(st.sendBuf)
			st.pendingData.Lock()
			for _, u := range st.pendingData.unread {
				fmt.Fprintf(&b, ",u%v", u.fallbackSlice != nil)
			}
			st.pendingData.Unlock()
			if e.rc != nil {
				fmt.Fprintf(&b, ",cb%d/%d", e.rc.local, e.rc.remote)
			}
			fmt.Fprintf(&b, ",%s", e.firstClose)
		}
	}
	if w.dead {
		return "dead" // terminal states are not extended
	}
	fmt.Fprintf(&b, "|use%d|act%d/%d", w.p.inUse(), w.p.c.GetActiveStreamCount(), w.p.s.GetActiveStreamCount())
	return b.String()
}

// complete closes every stream on both ends and evaluates the end-of-history oracles.
func (w *hWorld) complete() {
	if w.dead {
		return
	}
	if w.own("C08") {
		w.adversary()
		w.checkPins("the adversary (every free buffer allocated, overwritten, recycled)")
	}
	w.run(0, func() {
		for i := 0; i < 2; i++ {
			if e := w.end[i][0]; e != nil {
				e.st.Close()
				if e.firstClose == "" {
					e.firstClose = "local"
				}
				e.closed = true
			}
		}
	})
	w.run(1, func() {
		for i := 0; i < 2; i++ {
			w.bind(i)
			if e := w.end[i][1]; e != nil {
				e.st.Close()
				if !e.closed && e.firstClose == "" {
					e.firstClose = "remote"
				}
				e.closed = true
			}
		}
		// streams the server learnt of but the harness never bound (none expected)
		w.p.s.streamLock.Lock()
		var rest []*Stream
		for _, id := range vrt.SortedKeys(w.p.s.streams) {
			rest = append(rest, w.p.s.streams[id])
		}
		w.p.s.streamLock.Unlock()
		for _, st := range rest {
			st.Close()
		}
	})
	w.invariants("completion")
	if w.p.c.IsClosed() || w.p.s.IsClosed() {
		w.fail("C07", "session-died", "a session closed during the history (client %v, server %v)", w.p.c.IsClosed(), w.p.s.IsClosed())
		return
	}
	if a, b := w.p.c.GetActiveStreamCount(), w.p.s.GetActiveStreamCount(); a != 0 || b != 0 {
		w.fail("C10", "closed-still-active", "every stream was closed on both ends; active streams: client %d, server %d", a, b)
	}
	if n := w.p.inUse(); n != 0 {
		w.fail("C09", "leak", "every stream was closed on both ends, %d buffers are still allocated", n)
	}
}

func hAlphabet(mode int) []string {
	a := []string{"O0", "O1", "Zc", "Zs"}
	for i := 0; i < 2; i++ {
		for _, side := range []string{"c", "s"} {
			for _, o := range []string{"w", "m", "f", "r", "R", "e", "l", "x"} {
				a = append(a, fmt.Sprintf("%s%s%d", o, side, i))
			}
		}
	}
	return a
}

type hRun struct {
	Viol, Sig, Key string
	Enabled        bool
	Steps          int
	Choices        []int
}

func hRunPath(prop string, mode int, path []string) hRun {
	var out hRun
	body := func() {
		w := newHWorld(prop, mode)
		w.hist = strings.Join(path, " ")
		for _, o := range path {
			if !w.op(o) {
				vrt.Outcome("skip")
				return
			}
		}
		out.Enabled = true
		out.Key = w.key()
		w.complete()
		vrt.Outcome("ok")
	}
	x := vrt.RunOnce(vrt.Options{Bound: 0, StepLimit: 50000}, nil, body)
	out.Steps = len(x.Steps)
	if x.Fail != nil {
		out.Viol, out.Sig = x.Fail.Msg, x.Fail.Sig
		if x.Fail.Kind != "oracle" && out.Sig == "" {
			out.Sig = x.Fail.Kind
		}
	}
	return out
}

type hFound struct {
	Key  string   `json:"key"`
	Path []string `json:"path"`
}

type hLevel struct {
	States []hFound `json:"states"`
	Trans  int64    `json:"trans"`
	Steps  int64    `json:"steps"`
	Viols  []hViol  `json:"viols,omitempty"`
}

type hViol struct {
	Sig, Msg string
	Path     []string
}

type hParams struct {
	Mode int      `json:"mode"`
	Path []string `json:"path"`
}

// histBFS: the workers of one run share the search level by level (same scheme as c18BFS).
func histBFS(w *worker, prop string, mode, depth int) *vrt.Result {
	name := fmt.Sprintf("%s/hist-mode%d", prop, mode)
	res := &vrt.Result{Name: name, Exhaustive: true, Outcomes: map[string]int64{}, Counts: map[string]int64{}, FailCount: map[string]int64{}}
	dir := os.Getenv("VERIF_SCRATCH")
	if dir == "" {
		dir = os.TempDir()
	}
	dir = fmt.Sprintf("%s/histbfs.%s.%s.%d", dir, prop, w.tier, mode)
	os.MkdirAll(dir, 0o755)
	alpha := hAlphabet(mode)
	seen := map[string]bool{"": true}
	frontier := []hFound{{}}
	for level := 1; level <= depth && len(frontier) > 0; level++ {
		mine := hLevel{}
		for i, st := range frontier {
			if i%w.shardN != w.shardI {
				continue
			}
			if w.expired() {
				break
			}
			for _, o := range alpha {
				path := append(append([]string{}, st.Path...), o)
				r := hRunPath(prop, mode, path)
				if !r.Enabled && r.Viol == "" {
					continue
				}
				mine.Trans++
				mine.Steps += int64(r.Steps)
				if r.Viol != "" {
					if len(mine.Viols) < 4 {
						mine.Viols = append(mine.Viols, hViol{r.Sig, r.Viol, path})
					}
					continue // a violating state is not extended
				}
				mine.States = append(mine.States, hFound{r.Key, path})
			}
		}
		b, _ := json.Marshal(mine)
		tmp := fmt.Sprintf("%s/L%d.%d.tmp", dir, level, w.shardI)
		os.WriteFile(tmp, b, 0o644)
		os.Rename(tmp, fmt.Sprintf("%s/L%d.%d.json", dir, level, w.shardI))
		var next []hFound
		for i := 0; i < w.shardN; i++ {
			var lv hLevel
			for {
				b, err := os.ReadFile(fmt.Sprintf("%s/L%d.%d.json", dir, level, i))
				if err == nil && json.Unmarshal(b, &lv) == nil {
					break
				}
				if w.expired() {
					res.Exhaustive, res.CapHit = false, fmt.Sprintf("deadline in level %d (levels below it complete)", level)
					if w.shardI == 0 {
						res.States = int64(len(seen))
					}
					return res
				}
				time.Sleep(5 * time.Millisecond)
			}
			if w.shardI == 0 {
				res.Transitions += lv.Trans
				res.Execs += lv.Trans
				res.Counts["scheduler-steps"] += lv.Steps
				for _, v := range lv.Viols {
					res.FailCount[v.Sig]++
					if res.FailCount[v.Sig] == 1 {
						res.Failures = append(res.Failures, &vrt.Failure{Kind: "oracle", Sig: v.Sig, Msg: v.Msg, Params: hParams{mode, v.Path}})
					}
				}
			}
			for _, s := range lv.States {
				if !seen[s.Key] {
					seen[s.Key] = true
					next = append(next, s)
				}
			}
		}
		frontier = next
		if w.shardI == 0 {
			res.Counts[fmt.Sprintf("new-states-level-%d", level)] = int64(len(next))
		}
		if w.expired() {
			res.Exhaustive, res.CapHit = false, fmt.Sprintf("deadline after level %d", level)
			break
		}
	}
	if w.shardI == 0 {
		res.States = int64(len(seen))
		res.Outcomes[fmt.Sprintf("hist-mode%d-states", mode)] = int64(len(seen))
		res.Counts["frontier-left-at-depth-bound"] = int64(len(frontier))
		if len(w.out.Samples) < 2 && len(frontier) > 0 {
			w.out.Samples = append(w.out.Samples, map[string]interface{}{"history": frontier[len(frontier)/2].Path, "mode": mode})
		}
	}
	return res
}

// runHistories is the entry used by the checks of C07, C09 and C10 (before their schedule scenarios).
// It returns true when the run was a replay of a history (nothing else is to be done then).
func runHistories(w *worker, prop string, depthQuick, depthThorough int) bool {
	if w.replay != nil {
		if !strings.HasPrefix(w.replay.Scenario, prop+"/hist-mode") {
			return false
		}
		var hp hParams
		json.Unmarshal(w.replay.Params, &hp)
		for i := 0; i < 5; i++ {
			r := hRunPath(prop, hp.Mode, hp.Path)
			fmt.Printf("REPLAY run=%d scenario=%s steps=%d fail_sig=%q msg=%q\n", i, w.replay.Scenario, r.Steps, r.Sig, r.Viol)
		}
		return true
	}
	if h := os.Getenv("VERIF_HIST"); h != "" {
		r := hRunPath(prop, envInt("VERIF_HIST_MODE", 0), strings.Fields(h))
		t0 := time.Now()
		for i := 0; i < envInt("VERIF_HIST_N", 0); i++ {
			hRunPath(prop, envInt("VERIF_HIST_MODE", 0), strings.Fields(h))
		}
		fmt.Printf("DEBUG %d repeats in %v\n", envInt("VERIF_HIST_N", 0), time.Since(t0))
		fmt.Printf("DEBUG hist %q: %+v\n", h, r)
		return true
	}
	depth := depthQuick
	if w.thorough() {
		depth = depthThorough
	}
	for mode := 0; mode < 2; mode++ {
		r := histBFS(w, prop, mode, depth)
		w.out.Scenarios = append(w.out.Scenarios, &scenarioResult{Name: r.Name, Params: map[string]interface{}{"depth": depth, "mode": mode}, Result: r})
	}
	return false
}

