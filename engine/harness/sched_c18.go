//go:build verif

package shmipc

import (
	"bytes"
	"fmt"
	"syscall"
	"testing"

	"github.com/cloudwego/shmipc-go/internal/vrt"
)

// C18 (concurrent senders part) — writes by concurrent senders never interleave inside an event.
//
// Real pair under the scheduler. Three client threads send at once: a stream close (queue element + polling event
// on the fast path of wakeUpPeer), a 100-byte message that does not fit the remaining shared memory (fallback
// data event through the send loop) and a small shared-memory message (polling event). At every write syscall of
// the event connection the explorer may let the kernel take only half of the bytes (a short write), so an event
// can be on the wire half-way when another sender gets the CPU. Every schedule within the deviation bound.
// Oracle: the server parses every event (its session stays open, no invalid-message error), the fallback message
// arrives byte-exact, the shared-memory message arrives, the closed stream is seen closed.

func c18WritersBody() {
	vrt.WriteClamp = true
	vrt.OnCleanup(func() { vrt.WriteClamp = false })
	p := newEPair(pairOpts{FreeSmall: 3})
	var st [3]*Stream
	vrt.Quiet(true)
	t0 := vrt.GoProc("open", 1, func() {
		for i := range st {
			st[i], _ = p.c.OpenStream()
		}
		// make the streams known to the server with one byte each
		for i := range st {
			c09Flush(st[i], i+1, 0, 1)
		}
	})
	vrt.WaitThreads(t0)
	vrt.WaitIdle(0)
	vrt.Quiet(false)
	var ths []*vrt.Thread
	ths = append(ths, vrt.GoProc("closer", 1, func() { st[0].Close() }))
	ths = append(ths, vrt.GoProc("fallback-writer", 1, func() {
		if err := c09Flush(st[1], 2, 1, 100); err != nil {
			vrt.Failf("flush-error", "fallback flush: %v", err)
		}
	}))
	ths = append(ths, vrt.GoProc("shm-writer", 1, func() {
		if err := c09Flush(st[2], 3, 1, 5); err != nil {
			vrt.Failf("flush-error", "shm flush: %v", err)
		}
	}))
	vrt.WaitThreads(ths...)
	vrt.WaitIdle(vrt.Second)
	if p.s.IsClosed() || p.c.IsClosed() {
		vrt.Failf("garbled-events", "a session closed itself: server closed=%v (%v), client closed=%v (%v)", p.s.IsClosed(), p.s.shutdownErr, p.c.IsClosed(), p.c.shutdownErr)
	}
	get := func(id uint32) *Stream { return p.s.getStreamById(id) }
	s1, s2 := get(st[1].id), get(st[2].id)
	if s1 == nil || s2 == nil {
		vrt.Failf("stream-missing", "server lost a stream")
	}
	var got1, got2 []byte
	t := vrt.GoProc("server-read", 2, func() {
		s1.SetReadDeadline(vrt.Now().Add(vrt.Second))
		s2.SetReadDeadline(vrt.Now().Add(vrt.Second))
		b, _ := s1.BufferReader().ReadBytes(101)
		got1 = append(got1, b...)
		b, _ = s2.BufferReader().ReadBytes(6)
		got2 = append(got2, b...)
	})
	vrt.WaitThreads(t)
	if !bytes.Equal(got1, patBytes(2, 0, 101)) {
		vrt.Failf("fallback-bytes", "fallback message arrived as %x", got1)
	}
	if !bytes.Equal(got2, patBytes(3, 0, 6)) {
		vrt.Failf("shm-bytes", "shared-memory message arrived as %x", got2)
	}
	if s0 := get(st[0].id); s0 != nil && s0.IsOpen() {
		vrt.Failf("close-lost", "the close of stream %d never reached the server", st[0].id)
	}
	vrt.Outcome(fmt.Sprintf("polls=%d fb=%d", p.c.stats.sendPollingEventCount, p.c.stats.fallbackWriteCount))
}

// c18ParkedWriterBody: EAGAIN and the wake-up of a parked writer through the REAL handleEvent. The client's socket
// buffer is 4 KiB and the peer's loop does not run: a 64 KiB message by socket parks its writer after the first
// kilobytes. Then, while the client's own loop is not running either, the peer writes something to the client AND drains
// what is queued: the client's next epoll_wait reports "readable" and "writable" in ONE event. The writer must be
// woken by it, finish, and the message must arrive byte-exact.
func c18ParkedWriterBody() {
	p := newEPair(pairOpts{FreeSmall: 2, WriteTO: 5 * vrt.Second})
	var cst, sst *Stream
	vrt.Quiet(true)
	tc := vrt.GoProc("open-c", 1, func() {
		cst, _ = p.c.OpenStream()
		cst.BufferWriter().WriteBytes([]byte{0x55})
		cst.Flush(false)
	})
	ts := vrt.GoProc("open-s", 2, func() {
		sst, _ = p.s.AcceptStream()
		sst.BufferReader().ReadBytes(1)
		sst.BufferReader().ReleasePreviousRead()
	})
	vrt.WaitThreads(tc, ts)
	vrt.WaitIdle(0)
	vrt.Quiet(false)
	if cst == nil || sst == nil {
		vrt.Failf("harness", "could not establish the stream")
	}
	if err := syscall.SetsockoptInt(p.c.connFd, syscall.SOL_SOCKET, syscall.SO_SNDBUF, 4096); err != nil {
		vrt.Failf("harness", "SO_SNDBUF: %v", err)
	}
	p.router.paused[2] = true
	var ferr error
	flushed := false
	tw := vrt.GoProc("writer", 1, func() { ferr = c09Flush(cst, 1, 1, 64<<10); flushed = true })
	vrt.WaitIdle(0) // the writer (or the send loop on its behalf) is parked on a full socket now
	if flushed {
		vrt.Failf("harness", "64 KiB went into a 4 KiB socket buffer nobody reads: the writer was never parked (%v)", ferr)
	}
	p.router.paused[1] = true // the client's loop is busy elsewhere while both things happen
	tb := vrt.GoProc("peer-writes", 2, func() { c09Flush(sst, 9, 0, 5) })
	vrt.WaitThreads(tb)
	p.router.paused[2] = false
	vrt.WaitIdle(0) // the peer drains what is queued: the client's socket is writable again, and readable
	p.router.paused[1] = false
	vrt.WaitThreads(tw)
	vrt.WaitIdle(vrt.Second)
	if ferr != nil {
		vrt.Failf("flush-error", "the flush that had to wait for the socket returned %v", ferr)
	}
	var got []byte
	tr := vrt.GoProc("server-read", 2, func() {
		sst.SetReadDeadline(vrt.Now().Add(vrt.Second))
		b, _ := sst.BufferReader().ReadBytes(64 << 10)
		got = append(got, b...)
	})
	vrt.WaitThreads(tr)
	if !bytes.Equal(got, patBytes(1, 1, 64<<10)) {
		vrt.Failf("fallback-bytes", "of the 65536 bytes written through a socket that was full for a while %d arrived (equal prefix only: %v)", len(got), bytes.HasPrefix(patBytes(1, 1, 64<<10), got))
	}
	vrt.Outcome(fmt.Sprintf("ok fb=%d", p.c.stats.fallbackWriteCount))
}

func TestVerif_C18W(t *testing.T) {
	runBScenarios(t, "C18", []bScenario{
		{Name: "parked-writer-woken-by-coalesced-event", Bound: 1, BoundT: 2, Body: c18ParkedWriterBody, Live: true},
		{Name: "concurrent-senders-short-writes", Bound: 2, BoundT: 3, Body: c18WritersBody, Live: true},
	})
}
