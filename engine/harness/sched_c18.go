//go:build verif

package shmipc

import (
	"bytes"
	"fmt"
	"testing"

	"github.com/cloudwego/shmipc-go/internal/vrt"
)

// C18 (concurrent senders part) — writes by concurrent senders never interleave inside an event.
//
// Real pair under the scheduler. Three client threads send at once: a stream close (queue element + polling event
// on the fast path of wakeUpPeer), a 100-byte message that does not fit the remaining shared memory (fallback
// data event through the send loop) and a small shared-memory message (polling event). At every write syscall of
// the event connection the explorer may let the kernel take only half of the bytes (a short write), so an event
// can be on the wire half-way when another sender gets the CPU. Every schedule within the deviation bound.
// Oracle: the server parses every event (its session stays open, no invalid-message error), the fallback message
// arrives byte-exact, the shared-memory message arrives, the closed stream is seen closed.

func c18WritersBody() {
	vrt.WriteClamp = true
	vrt.OnCleanup(func() { vrt.WriteClamp = false })
	p := newEPair(pairOpts{FreeSmall: 3})
	var st [3]*Stream
	vrt.Quiet(true)
	t0 := vrt.GoProc("open", 1, func() {
		for i := range st {
			st[i], _ = p.c.OpenStream()
		}
		// make the streams known to the server with one byte each
		for i := range st {
			c09Flush(st[i], i+1, 0, 1)
		}
	})
	vrt.WaitThreads(t0)
	vrt.WaitIdle(0)
	vrt.Quiet(false)
	var ths []*vrt.Thread
	ths = append(ths, vrt.GoProc("closer", 1, func() { st[0].Close() }))
	ths = append(ths, vrt.GoProc("fallback-writer", 1, func() {
		if err := c09Flush(st[1], 2, 1, 100); err != nil {
			vrt.Failf("flush-error", "fallback flush: %v", err)
		}
	}))
	ths = append(ths, vrt.GoProc("shm-writer", 1, func() {
		if err := c09Flush(st[2], 3, 1, 5); err != nil {
			vrt.Failf("flush-error", "shm flush: %v", err)
		}
	}))
	vrt.WaitThreads(ths...)
	vrt.WaitIdle(vrt.Second)
	if p.s.IsClosed() || p.c.IsClosed() {
		vrt.Failf("garbled-events", "a session closed itself: server closed=%v (%v), client closed=%v (%v)", p.s.IsClosed(), p.s.shutdownErr, p.c.IsClosed(), p.c.shutdownErr)
	}
	get := func(id uint32) *Stream { return p.s.getStreamById(id) }
	s1, s2 := get(st[1].id), get(st[2].id)
	if s1 == nil || s2 == nil {
		vrt.Failf("stream-missing", "server lost a stream")
	}
	var got1, got2 []byte
	t := vrt.GoProc("server-read", 2, func() {
		s1.SetReadDeadline(vrt.Now().Add(vrt.Second))
		s2.SetReadDeadline(vrt.Now().Add(vrt.Second))
		b, _ := s1.BufferReader().ReadBytes(101)
		got1 = append(got1, b...)
		b, _ = s2.BufferReader().ReadBytes(6)
		got2 = append(got2, b...)
	})
	vrt.WaitThreads(t)
	if !bytes.Equal(got1, patBytes(2, 0, 101)) {
		vrt.Failf("fallback-bytes", "fallback message arrived as %x", got1)
	}
	if !bytes.Equal(got2, patBytes(3, 0, 6)) {
		vrt.Failf("shm-bytes", "shared-memory message arrived as %x", got2)
	}
	if s0 := get(st[0].id); s0 != nil && s0.IsOpen() {
		vrt.Failf("close-lost", "the close of stream %d never reached the server", st[0].id)
	}
	vrt.Outcome(fmt.Sprintf("polls=%d fb=%d", p.c.stats.sendPollingEventCount, p.c.stats.fallbackWriteCount))
}

func TestVerif_C18W(t *testing.T) {
	runBScenarios(t, "C18", []bScenario{{Name: "concurrent-senders-short-writes", Bound: 2, BoundT: 3, Body: c18WritersBody, Live: true}})
}
