//go:build verif

package shmipc

import (
	"encoding/json"
	"fmt"
	"io"
	"os"
	"strings"
	"testing"
	"unsafe"

	"github.com/cloudwego/shmipc-go/internal/vrt"
)

// C06 / C08 — a stream is a faithful byte pipe; zero-copy read results stay valid until released.
//
// Sequential explicit-state search. A "world" is two minimal Session values (client A, server B) over one
// buffer memory (creator / mapped bufferManager) and one queue memory, with recording event connections; an
// operation history is replayed on a fresh world, the real Stream / linkedBuffer code does all the work
// (real Flush incl. fallback through the real send loop, real handleEvents / handlePolling / handleFallbackData,
// real readMore / pendingData.moveTo). Successor states are deduplicated by a canonical abstraction of both
// ends' buffers, the free lists and the model counters. Reference model: a byte queue per direction whose
// contents are a function of (direction, position).

type c06Op struct {
	K byte `json:"k"` // see c06Apply
	S int  `json:"s"` // side: 0 = A (client), 1 = B (server)
	N int  `json:"n"`
}

func (o c06Op) String() string { return fmt.Sprintf("%c%d@%c", o.K, o.N, "AB"[o.S]) }

type c06Cfg struct {
	Name  string            `json:"name"`
	Pairs []SizePercentPair `json:"pairs"`
	Mem   int               `json:"mem"`
	Hog   int               `json:"hog"` // 0 none; 1 leave two free slots in the smallest class only; 2 everything exhausted
}

type c06Conn struct {
	log  []byte
	peer *Session
}

func (c *c06Conn) commitRead(n int)                       {}
func (c *c06Conn) setCallback(cb eventConnCallback) error { return nil }
func (c *c06Conn) writev(data ...[]byte) error {
	for _, d := range data {
		c.log = append(c.log, d...)
	}
	return nil
}
func (c *c06Conn) close() error { return nil }
func (c *c06Conn) write(data []byte) error {
	c.log = append(c.log, data...)
	return nil
}

type c06Pin struct {
	got    []byte
	expect []byte
	side   int
	pos    int
}

type c06Dir struct { // bytes travelling from side d to side 1-d
	written, flushed, delivered, moved, consumed int
}

type c06World struct {
	cfg     c06Cfg
	mem     []byte
	bm      [2]*bufferManager
	sess    [2]*Session
	conn    [2]*c06Conn
	st      [2]*Stream
	dir     [2]c06Dir
	pins    []c06Pin
	hogged  []*bufferSlice
	nhog    int
	viol    string
	reserve [][]byte
}

func c06Byte(d, i int) byte { return byte(i*7 + d*101 + (i>>8)*13 + 1) }

func c06Bytes(d, from, n int) []byte {
	b := make([]byte, n)
	for i := range b {
		b[i] = c06Byte(d, from+i)
	}
	return b
}

func newC06World(cfg c06Cfg) *c06World {
	w := &c06World{cfg: cfg}
	debugMode = true // no circuit-breaker timers
	SetLogLevel(levelNoPrint)
	w.mem = make([]byte, cfg.Mem)
	pairs := make([]*SizePercentPair, len(cfg.Pairs))
	for i := range cfg.Pairs {
		p := cfg.Pairs[i]
		pairs[i] = &p
	}
	var err error
	if w.bm[0], err = createBufferManager(pairs, "", w.mem, 0); err != nil {
		panic("c06 setup: " + err.Error())
	}
	if w.bm[1], err = mappingBufferManager("", w.mem, 0); err != nil {
		panic("c06 setup: " + err.Error())
	}
	const qcap = 64
	qmem := make([]byte, countQueueMemSize(qcap)*queueCount)
	half := len(qmem) / 2
	qa := &queueManager{sendQueue: createQueueFromBytes(qmem[:half], qcap), recvQueue: createQueueFromBytes(qmem[half:], qcap)}
	qb := &queueManager{sendQueue: mappingQueueFromBytes(qmem[half:]), recvQueue: mappingQueueFromBytes(qmem[:half])}
	mk := func(i int, q *queueManager, client bool) {
		w.conn[i] = &c06Conn{}
		s := &Session{
			config: DefaultConfig(), logger: newLogger("s", io.Discard), streams: map[uint32]*Stream{},
			sendCh: make(chan sendReady, 16), notifyContinueWriteCh: make(chan struct{}, 1), shutdownCh: make(chan struct{}),
			isClient: client, communicationVersion: protoVersion, eventConn: w.conn[i],
			queueManager: q, bufferManager: w.bm[i],
		}
		if client {
			s.nextStreamID = 1
		} else {
			s.nextStreamID = 2
			s.acceptCh = make(chan *Stream, 16)
		}
		w.sess[i] = s
		go s.send()
	}
	mk(0, qa, true)
	mk(1, qb, false)
	w.conn[0].peer, w.conn[1].peer = w.sess[1], w.sess[0]
	w.st[0], err = w.sess[0].OpenStream()
	if err != nil {
		panic("c06 setup: " + err.Error())
	}
	// exhaustion pattern
	switch cfg.Hog {
	case 1:
		for ci, l := range w.bm[0].lists {
			keep := 0
			if ci == 0 {
				keep = 2
			}
			for l.remain() > keep {
				s, err := l.pop()
				if err != nil {
					break
				}
				w.hogged = append(w.hogged, s)
			}
		}
	case 2:
		for _, l := range w.bm[0].lists {
			for {
				s, err := l.pop()
				if err != nil {
					break
				}
				w.hogged = append(w.hogged, s)
			}
		}
	}
	w.nhog = len(w.hogged)
	return w
}

func (w *c06World) close() {
	for i := 0; i < 2; i++ {
		close(w.sess[i].shutdownCh)
	}
}

// deliver feeds everything side s wrote on its control connection to the peer's real event handling.
func (w *c06World) deliver(s int) {
	c := w.conn[s]
	if len(c.log) == 0 {
		return
	}
	buf := c.log
	c.log = nil
	n, err := c.peer.handleEvents(buf)
	if err != nil {
		w.viol = fmt.Sprintf("peer rejected the events written by the sender: %v", err)
		return
	}
	if n != len(buf) {
		w.viol = fmt.Sprintf("peer consumed %d of %d event bytes", n, len(buf))
		return
	}
	if s == 0 && w.st[1] == nil {
		select {
		case st := <-w.sess[1].acceptCh:
			w.st[1] = st
		default:
		}
	}
	w.dir[s].delivered = w.dir[s].flushed
}

func (w *c06World) inUse() int {
	n := 0
	for _, l := range w.bm[0].lists {
		n += int(*l.cap) - int(*l.size)
	}
	return n
}

func (w *c06World) checkPins(after string) {
	for _, p := range w.pins {
		for i := range p.got {
			if p.got[i] != p.expect[i] {
				w.viol = fmt.Sprintf("a slice returned earlier (side %c, stream position %d, %d bytes) changed at byte %d after %s", "AB"[p.side], p.pos, len(p.got), i, after)
				return
			}
		}
	}
}

func (w *c06World) dropPins(side int) {
	k := w.pins[:0]
	for _, p := range w.pins {
		if p.side != side {
			k = append(k, p)
		}
	}
	w.pins = k
}

// avail: bytes side s may read without blocking.
func (w *c06World) avail(s int) int { return w.dir[1-s].delivered - w.dir[1-s].consumed }

// enabled reports whether the op can be issued without blocking / is meaningful now.
func (w *c06World) enabled(o c06Op) bool {
	st := w.st[o.S]
	if st == nil {
		return false
	}
	switch o.K {
	case 'W', 'R', 'S', 'X':
		return o.N > 0
	case 'B', 'F':
		return true
	case 'r', 'p', 'd', 's':
		return o.N <= w.avail(o.S)
	case 'b':
		return w.avail(o.S) >= 1
	case 'x':
		return o.N == 0 || w.avail(o.S) >= 1
	case 'L', 'U', 'Z':
		return true
	}
	return false
}

func (w *c06World) expectRead(s, n int) []byte {
	d := &w.dir[1-s]
	return c06Bytes(1-s, d.consumed, n)
}

// noteMove models pendingData.moveTo: it happens when the read needs more than the receive buffer holds.
func (w *c06World) noteMove(s, need int) {
	d := &w.dir[1-s]
	if d.moved-d.consumed < need {
		d.moved = d.delivered
	}
}

func eqBytes(a, b []byte) bool {
	if len(a) != len(b) {
		return false
	}
	for i := range a {
		if a[i] != b[i] {
			return false
		}
	}
	return true
}

// apply runs one operation on the real objects and compares with the model. A panic is a violation.
func (w *c06World) apply(o c06Op) {
	defer func() {
		if r := recover(); r != nil {
			w.viol = fmt.Sprintf("panic in %v: %v", o, r)
		}
	}()
	st := w.st[o.S]
	d := &w.dir[o.S]    // what this side sends
	in := &w.dir[1-o.S] // what this side receives
	switch o.K {
	case 'W':
		data := c06Bytes(o.S, d.written, o.N)
		n, err := st.BufferWriter().WriteBytes(data)
		if err != nil || n != o.N {
			w.viol = fmt.Sprintf("WriteBytes(%d) = %d, %v", o.N, n, err)
		}
		d.written += o.N
	case 'R':
		b, err := st.BufferWriter().Reserve(o.N)
		if err != nil || len(b) != o.N {
			w.viol = fmt.Sprintf("Reserve(%d) returned %d bytes, %v", o.N, len(b), err)
			return
		}
		copy(b, c06Bytes(o.S, d.written, o.N))
		d.written += o.N
	case 'B':
		if err := st.BufferWriter().WriteByte(c06Byte(o.S, d.written)); err != nil {
			w.viol = fmt.Sprintf("WriteByte: %v", err)
		}
		d.written++
	case 'S':
		if err := st.BufferWriter().WriteString(string(c06Bytes(o.S, d.written, o.N))); err != nil {
			w.viol = fmt.Sprintf("WriteString(%d): %v", o.N, err)
		}
		d.written += o.N
	case 'X':
		n, err := st.Write(c06Bytes(o.S, d.written, o.N))
		if err != nil || n != o.N {
			w.viol = fmt.Sprintf("Write(%d) = %d, %v", o.N, n, err)
		}
		d.written += o.N
		d.flushed = d.written
		w.deliver(o.S)
	case 'F':
		if err := st.Flush(false); err != nil {
			w.viol = fmt.Sprintf("Flush: %v", err)
		}
		d.flushed = d.written
		w.deliver(o.S)
	case 'r':
		exp := w.expectRead(o.S, o.N)
		w.noteMove(o.S, o.N)
		got, err := st.BufferReader().ReadBytes(o.N)
		if err != nil || !eqBytes(got, exp) {
			w.viol = fmt.Sprintf("ReadBytes(%d) at position %d returned %d bytes %x (err %v), expected %x", o.N, in.consumed, len(got), got, err, exp)
			return
		}
		if o.N > 0 {
			w.pins = append(w.pins, c06Pin{got: got, expect: exp, side: o.S, pos: in.consumed})
		}
		in.consumed += o.N
	case 'p':
		exp := w.expectRead(o.S, o.N)
		w.noteMove(o.S, o.N)
		got, err := st.BufferReader().Peek(o.N)
		if err != nil || !eqBytes(got, exp) {
			w.viol = fmt.Sprintf("Peek(%d) at position %d returned %d bytes %x (err %v), expected %x", o.N, in.consumed, len(got), got, err, exp)
			return
		}
		if o.N > 0 {
			w.pins = append(w.pins, c06Pin{got: got, expect: exp, side: o.S, pos: in.consumed})
		}
	case 'd':
		w.noteMove(o.S, o.N)
		n, err := st.BufferReader().Discard(o.N)
		if err != nil || n != o.N {
			w.viol = fmt.Sprintf("Discard(%d) = %d, %v", o.N, n, err)
			return
		}
		in.consumed += o.N
	case 'b':
		exp := w.expectRead(o.S, 1)
		w.noteMove(o.S, 1)
		c, err := st.BufferReader().ReadByte()
		if err != nil || c != exp[0] {
			w.viol = fmt.Sprintf("ReadByte at position %d = %#x, %v; expected %#x", in.consumed, c, err, exp[0])
			return
		}
		in.consumed++
	case 's':
		exp := w.expectRead(o.S, o.N)
		w.noteMove(o.S, o.N)
		got, err := st.BufferReader().ReadString(o.N)
		if err != nil || got != string(exp) {
			w.viol = fmt.Sprintf("ReadString(%d) at position %d returned %x (err %v), expected %x", o.N, in.consumed, got, err, exp)
			return
		}
		in.consumed += o.N
	case 'x':
		if o.N > 0 {
			w.noteMove(o.S, 1)
		}
		want := o.N
		if m := in.moved - in.consumed; want > m {
			want = m // Read may return fewer bytes than asked for (io.Reader); it returns what the buffer holds
		}
		p := make([]byte, o.N)
		n, err := st.Read(p)
		if err != nil || n < 0 || n > o.N || (o.N > 0 && n == 0) {
			w.viol = fmt.Sprintf("Read(p[:%d]) = %d, %v", o.N, n, err)
			return
		}
		exp := w.expectRead(o.S, n)
		if !eqBytes(p[:n], exp) {
			w.viol = fmt.Sprintf("Read(p[:%d]) at position %d returned %x, expected %x", o.N, in.consumed, p[:n], exp)
			return
		}
		if n != want {
			w.viol = fmt.Sprintf("Read(p[:%d]) returned %d bytes although %d were buffered", o.N, n, in.moved-in.consumed)
			return
		}
		in.consumed += n
	case 'L':
		st.BufferReader().ReleasePreviousRead()
		w.dropPins(o.S)
	case 'U':
		st.ReleaseReadAndReuse()
		w.dropPins(o.S)
	case 'Z': // adversary: allocate every free buffer, scribble, recycle
		var got []*bufferSlice
		for _, l := range w.bm[1-o.S].lists {
			for {
				s, err := l.pop()
				if err != nil {
					break
				}
				for i := range s.data {
					s.data[i] = 0xEE
				}
				got = append(got, s)
			}
		}
		for _, s := range got {
			w.bm[1-o.S].recycleBuffer(s)
		}
	}
	if w.viol != "" {
		return
	}
	// invariants after every operation
	for s := 0; s < 2; s++ {
		if w.st[s] == nil {
			continue
		}
		in := &w.dir[1-s]
		if l := w.st[s].BufferReader().Len(); l != in.moved-in.consumed {
			w.viol = fmt.Sprintf("after %v: side %c Len() = %d, model has %d moved-unread bytes (flushed %d, delivered %d, consumed %d)", o, "AB"[s], l, in.moved-in.consumed, in.flushed, in.delivered, in.consumed)
			return
		}
		if l := w.st[s].BufferWriter().Len(); l != w.dir[s].written-w.dir[s].flushed {
			w.viol = fmt.Sprintf("after %v: side %c writer Len() = %d, model has %d unflushed bytes", o, "AB"[s], l, w.dir[s].written-w.dir[s].flushed)
			return
		}
	}
	w.checkPins(o.String())
}

// finish completes a history: read everything, release, close both ends; every buffer must be free again.
func (w *c06World) finish() {
	defer func() {
		if r := recover(); r != nil {
			w.viol = fmt.Sprintf("panic while draining: %v", r)
		}
	}()
	// before anything is drained: whatever was handed out zero-copy and not released must survive an adversary that
	// allocates, scribbles over and recycles every free buffer (so every history effectively ends with that op)
	if len(w.pins) > 0 {
		for s := 0; s < 2; s++ {
			w.apply(c06Op{K: 'Z', S: s})
			if w.viol != "" {
				w.viol = "completion adversary: " + w.viol
				return
			}
		}
	}
	for s := 0; s < 2; s++ {
		if w.st[s] == nil {
			continue
		}
		if n := w.avail(s); n > 0 {
			exp := w.expectRead(s, n)
			w.noteMove(s, n)
			got, err := w.st[s].BufferReader().ReadBytes(n)
			if err != nil || !eqBytes(got, exp) {
				w.viol = fmt.Sprintf("drain: ReadBytes(%d) at %d returned %x (%v), expected %x", n, w.dir[1-s].consumed, got, err, exp)
				return
			}
			w.dir[1-s].consumed += n
			w.checkPins("drain")
			if w.viol != "" {
				return
			}
		}
		w.st[s].BufferReader().ReleasePreviousRead()
	}
	w.pins = nil
	for s := 0; s < 2; s++ {
		if w.st[s] != nil {
			w.st[s].Close()
			w.deliver(s)
		}
	}
	if w.viol != "" {
		return
	}
	if n := w.inUse(); n != w.nhog {
		w.viol = fmt.Sprintf("after reading and releasing everything and closing both ends %d buffers are still allocated (%d held by the harness)", n, w.nhog)
	}
}

// key: canonical abstraction of everything that determines future behaviour.
func (w *c06World) key() string {
	var sb strings.Builder
	lb := func(l *linkedBuffer) {
		fmt.Fprintf(&sb, "[len%d shm%v pin%v|", l.len, l.isFromShm, l.currentPinned)
		for s := l.sliceList.front(); s != nil; s = s.nextSlice {
			ws := 0
			if s == l.sliceList.writeSlice {
				ws = 1
			}
			fmt.Fprintf(&sb, "%v:%d:%d:%d:%d:%d:%d,", s.isFromShm, s.offsetInShm, s.cap, s.start, s.readIndex, s.writeIndex, ws)
		}
		sb.WriteString("|P")
		for s := l.pinnedList.front(); s != nil; s = s.nextSlice {
			fmt.Fprintf(&sb, "%d,", s.offsetInShm)
		}
		sb.WriteString("]")
	}
	for s := 0; s < 2; s++ {
		st := w.st[s]
		if st == nil {
			sb.WriteString("nil;")
			continue
		}
		fmt.Fprintf(&sb, "S%d fb%v st%d ", s, st.inFallbackState, st.state)
		lb(st.recvBuf)
		lb(st.sendBuf)
		for _, u := range st.pendingData.unread {
			if u.fallbackSlice != nil {
				fmt.Fprintf(&sb, "F%d,", u.fallbackSlice.size())
			} else {
				fmt.Fprintf(&sb, "O%d,", u.offset)
			}
		}
		d := w.dir[s]
		fmt.Fprintf(&sb, " m%d.%d.%d.%d.%d;", d.written%251, d.written-d.flushed, d.flushed-d.consumed, d.moved-d.consumed, d.consumed%251)
	}
	for _, l := range w.bm[0].lists {
		fmt.Fprintf(&sb, "L%d:", *l.size)
		cur := *l.head
		for i := 0; i < int(*l.cap)+1; i++ {
			fmt.Fprintf(&sb, "%d,", cur)
			h := bufferHeader(l.bufferRegion[cur : cur+bufferHeaderSize])
			if !h.hasNext() {
				break
			}
			cur = h.nextBufferOffset()
		}
	}
	for _, p := range w.pins {
		fmt.Fprintf(&sb, "p%d.%d.%d.%p;", p.side, p.pos%251, len(p.got), unsafe.Pointer(&p.got[0]))
	}
	return sb.String()
}

// closeOnly completes a history by closing both ends at once, with whatever is unread, unreleased or unflushed.
func (w *c06World) closeOnly() {
	defer func() {
		if r := recover(); r != nil {
			w.viol = fmt.Sprintf("panic while closing: %v", r)
		}
	}()
	w.pins = nil
	for s := 0; s < 2; s++ {
		if w.st[s] != nil {
			w.st[s].Close()
			w.deliver(s)
		}
	}
	if w.viol != "" {
		return
	}
	if n := w.inUse(); n != w.nhog {
		w.viol = fmt.Sprintf("after closing both ends (unread / unreleased data dropped) %d buffers are still allocated (%d held by the harness)", n, w.nhog)
	}
}

func c06Run(cfg c06Cfg, hist []c06Op, finish bool) (w *c06World, ok bool) {
	w = newC06World(cfg)
	for i, o := range hist {
		if !w.enabled(o) {
			return w, false
		}
		w.apply(o)
		if os.Getenv("VERIF_C06_DEBUG") != "" {
			fmt.Printf("DEBUG after %v: %s\n", o, w.key())
		}
		if w.viol != "" {
			w.viol = fmt.Sprintf("op %d %v: %s", i, o, w.viol)
			return w, true
		}
	}
	if finish {
		w.finish()
	}
	return w, true
}

type c06Search struct {
	cfg       c06Cfg
	alphabet  []c06Op
	maxDepth  int
	seen      map[string]bool
	states    int64
	trans     int64
	histories int64
	maxReach  int
	viol      string
	violHist  []c06Op
	deadline  int64
	capped    bool
	pinChecks int64
	prefixNA  bool
	prefix    []c06Op // the search starts from the state this history reaches (a non-initial state)
}

func (s *c06Search) bfs() {
	type node struct{ hist []c06Op }
	frontier := []node{{s.prefix}}
	s.seen = map[string]bool{}
	if len(s.prefix) > 0 {
		w, ok := c06Run(s.cfg, s.prefix, false)
		v := w.viol
		w.close()
		if !ok {
			s.prefixNA = true // the prefix is not applicable in this configuration (reported)
			return
		}
		if v != "" {
			s.viol, s.violHist = v, s.prefix
			return
		}
	}
	for depth := 0; depth < s.maxDepth && len(frontier) > 0 && s.viol == ""; depth++ {
		var next []node
		for _, nd := range frontier {
			if s.deadline > 0 && s.trans%256 == 0 && nowNs() > s.deadline {
				s.capped = true
				return
			}
			for _, o := range s.alphabet {
				h := append(append([]c06Op{}, nd.hist...), o)
				w, ok := c06Run(s.cfg, h, false)
				if !ok {
					w.close()
					continue
				}
				s.trans++
				s.pinChecks += int64(len(w.pins))
				if w.viol == "" {
					k := w.key()
					if !s.seen[k] {
						s.seen[k] = true
						s.states++
						next = append(next, node{h})
						if len(h) > s.maxReach {
							s.maxReach = len(h)
						}
						// complete the history: drain, release, close => byte-exact and nothing left allocated
						w.finish()
						s.histories++
						if w.viol == "" {
							// ... and once more from the same state by closing both ends straight away
							w.close()
							w, _ = c06Run(s.cfg, h, false)
							w.closeOnly()
							s.histories++
							if w.viol != "" {
								w.viol = "completion close-only: " + w.viol
							}
						}
					}
				}
				w.close()
				if w.viol != "" {
					s.viol, s.violHist = w.viol, h
					return
				}
			}
		}
		frontier = next
	}
}

func c06Sizes(cfg c06Cfg) []int {
	c := int(cfg.Pairs[0].Size)
	C := int(cfg.Pairs[len(cfg.Pairs)-1].Size)
	cand := []int{1, c - 1, c, c + 1, 2*c + 1, C + 1}
	var out []int
	seen := map[int]bool{}
	for _, n := range cand {
		if n > 0 && !seen[n] {
			seen[n] = true
			out = append(out, n)
		}
	}
	return out
}

func c06Alphabet(cfg c06Cfg, bidir bool, reduced bool, sizesOpt ...[]int) []c06Op {
	var a []c06Op
	sizes := c06Sizes(cfg)
	if len(sizesOpt) > 0 {
		sizes = sizesOpt[0]
	}
	sides := []int{0}
	if bidir {
		sides = []int{0, 1}
	}
	for _, s := range sides {
		for _, k := range []byte{'W', 'R', 'S', 'X'} {
			if reduced && (k == 'S') {
				continue
			}
			for _, n := range sizes {
				a = append(a, c06Op{k, s, n})
			}
		}
		a = append(a, c06Op{'B', s, 1}, c06Op{'F', s, 0})
	}
	for _, s := range sides {
		r := 1 - s
		for _, k := range []byte{'r', 'p', 'd', 's', 'x'} {
			if reduced && k == 's' {
				continue
			}
			for _, n := range append([]int{0}, sizes...) {
				a = append(a, c06Op{k, r, n})
			}
		}
		a = append(a, c06Op{'b', r, 1}, c06Op{'L', r, 0}, c06Op{'U', r, 0}, c06Op{'Z', r, 0})
	}
	return a
}

func c06Configs() []c06Cfg {
	var out []c06Cfg
	for _, hog := range []int{0, 1, 2} {
		out = append(out,
			c06Cfg{Name: "8", Pairs: []SizePercentPair{{8, 100}}, Mem: 8 + 36 + 6*28, Hog: hog},
			c06Cfg{Name: "4-16", Pairs: []SizePercentPair{{4, 50}, {16, 50}}, Mem: 8 + 72 + 2*((4+20)*4), Hog: hog},
			c06Cfg{Name: "8-32", Pairs: []SizePercentPair{{8, 40}, {32, 60}}, Mem: 8 + 72 + 400, Hog: hog},
		)
	}
	return out
}

func testVerifC06(t *testing.T, prop string) {
	w := newWorker(t, prop)
	defer w.finish()
	if w.replay != nil {
		var rp struct {
			Cfg  c06Cfg  `json:"cfg"`
			Hist []c06Op `json:"hist"`
		}
		if err := json.Unmarshal(w.replay.Params, &rp); err != nil {
			t.Fatalf("replay params: %v", err)
		}
		for i := 0; i < 5; i++ {
			wd, ok := c06Run(rp.Cfg, rp.Hist, true)
			if !ok {
				fmt.Printf("REPLAY note: an operation of the history is not enabled\n")
			}
			wd.close()
			if wd.viol == "" {
				wd, _ = c06Run(rp.Cfg, rp.Hist, false)
				wd.closeOnly()
				wd.close()
			}
			sig := ""
			if wd.viol != "" {
				sig = c06Sig(wd.viol)
			}
			fmt.Printf("REPLAY run=%d scenario=c06 steps=%d fail_sig=%q msg=%q\n", i, len(rp.Hist), sig, wd.viol)
		}
		return
	}
	depthUni, depthBi, depthPre := 4, 3, 3
	if w.thorough() {
		depthUni, depthBi, depthPre = 4, 4, 3 // (uni depth 5 does not fit the thorough budget: 18 searches of ~10^8 transitions)
	}
	// a handful of deeper two-directional histories around the buffer swap of ReleaseReadAndReuse are always run
	extra := [][]c06Op{
		{{'X', 0, 1}, {'W', 1, 1}, {'r', 1, 1}, {'U', 1, 0}, {'F', 1, 0}, {'r', 0, 1}},
		{{'X', 0, 9}, {'r', 1, 9}, {'U', 1, 0}, {'W', 1, 3}, {'F', 1, 0}, {'r', 0, 3}, {'U', 0, 0}, {'X', 0, 2}, {'r', 1, 2}},
		{{'X', 0, 8}, {'R', 1, 3}, {'r', 1, 8}, {'U', 1, 0}, {'F', 1, 0}, {'r', 0, 3}},
	}
	if v := os.Getenv("VERIF_DEPTH"); v != "" {
		fmt.Sscanf(v, "%d", &depthUni)
	}
	for _, cfg := range c06Configs() {
		if w.shardI == 0 && w.replay == nil {
			for _, h := range extra {
				wd, ok := c06Run(cfg, h, true)
				wd.close()
				if ok && wd.viol != "" {
					sig := c06Sig(wd.viol)
					res := &vrt.Result{Name: "c06/extra", Exhaustive: true, Execs: 1, Transitions: int64(len(h)), States: 1, Outcomes: map[string]int64{}, Counts: map[string]int64{}, FailCount: map[string]int64{sig: 1}}
					res.Failures = append(res.Failures, &vrt.Failure{Kind: "oracle", Sig: sig, Msg: fmt.Sprintf("config %s hog %d history %v: %s", cfg.Name, cfg.Hog, h, wd.viol), Params: map[string]interface{}{"cfg": cfg, "hist": h}})
					w.out.Scenarios = append(w.out.Scenarios, &scenarioResult{Name: "c06/extra", Params: cfg, Result: res})
				}
			}
		}
		for _, bidir := range []bool{false, true} {
			name := fmt.Sprintf("c06/%s-hog%d-bidir%v", cfg.Name, cfg.Hog, bidir)
			if !w.mine() {
				continue
			}
			s := &c06Search{cfg: cfg, alphabet: c06Alphabet(cfg, bidir, bidir), maxDepth: depthUni, deadline: w.deadline}
			if bidir {
				s.maxDepth = depthBi
			}
			s.bfs()
			res := &vrt.Result{Name: name, Execs: s.trans, Transitions: s.trans, States: s.states, MaxDepth: s.maxReach, Exhaustive: !s.capped,
				Outcomes: map[string]int64{}, Counts: map[string]int64{"completed_histories": s.histories, "pin_rechecks": s.pinChecks}, FailCount: map[string]int64{}}
			if s.capped {
				res.CapHit = "deadline"
			}
			res.Outcomes[fmt.Sprintf("%s-depth%d-states%d", name, s.maxDepth, s.states)] = s.states
			if s.viol != "" {
				sig := c06Sig(s.viol)
				res.Failures = append(res.Failures, &vrt.Failure{Kind: "oracle", Sig: sig, Msg: fmt.Sprintf("%s history %v: %s", name, s.violHist, s.viol),
					Params: map[string]interface{}{"cfg": cfg, "hist": s.violHist}})
				res.FailCount[sig]++
			}
			if len(w.out.Samples) < 2 && len(s.seen) > 0 {
				w.out.Samples = append(w.out.Samples, map[string]interface{}{"scenario": name, "alphabet_size": len(s.alphabet), "depth": s.maxDepth, "alphabet_sample": fmt.Sprint(s.alphabet[:8])})
			}
			w.out.Scenarios = append(w.out.Scenarios, &scenarioResult{Name: name, Params: cfg, Result: res})
		}
		// searches from non-initial states (both directions, the reduced alphabet): states that need five to seven
		// operations to set up and are therefore beyond the depth of the searches above
		c := int(cfg.Pairs[0].Size)
		for pi, pre := range [][]c06Op{
			{{'X', 0, 1}, {'r', 1, 1}, {'L', 1, 0}},                                                               // both ends exist (the server's end only exists once a first message arrived)
			{{'X', 0, c}, {'X', 1, c}, {'r', 0, 1}, {'r', 1, c}, {'U', 1, 0}},                                     // B reuses its read buffer (a slice of the smallest class) for writing while A sits on a partly read backlog
			{{'X', 0, c + 1}, {'X', 1, c}, {'r', 0, 1}, {'r', 1, c + 1}, {'U', 1, 0}},                             // the same with a larger reused slice
			{{'X', 0, c + 1}, {'r', 1, c + 1}, {'U', 1, 0}, {'W', 1, 1}, {'F', 1, 0}, {'r', 0, 1}, {'U', 0, 0}}, // both ends reused
			{{'X', 0, 2*c + 1}, {'p', 1, c + 1}, {'r', 1, 1}},                                                      // pinned across slices, cursor inside the first
			{{'X', 0, c}, {'X', 0, c + 1}, {'r', 1, 1}, {'X', 1, 1}},                                               // two messages behind a partly read one, traffic the other way
		} {
			name := fmt.Sprintf("c06/%s-hog%d-from-state%d", cfg.Name, cfg.Hog, pi)
			if !w.mine() {
				continue
			}
			alpha := c06Alphabet(cfg, true, true)
			if !w.thorough() {
				if cfg.Hog != 0 {
					continue // (quick: the exhaustion patterns are left to the thorough tier)
				}
				alpha = c06Alphabet(cfg, true, true, []int{1, c, c + 1})
			}
			s := &c06Search{cfg: cfg, alphabet: alpha, maxDepth: depthPre, deadline: w.deadline, prefix: pre}
			s.bfs()
			res := &vrt.Result{Name: name, Execs: s.trans, Transitions: s.trans, States: s.states, MaxDepth: s.maxReach, Exhaustive: !s.capped,
				Outcomes: map[string]int64{}, Counts: map[string]int64{"completed_histories": s.histories, "pin_rechecks": s.pinChecks}, FailCount: map[string]int64{}}
			if s.capped {
				res.CapHit = "deadline"
			}
			res.Outcomes[fmt.Sprintf("%s-depth%d-states%d", name, s.maxDepth, s.states)] = s.states
			if s.prefixNA {
				res.Counts["prefix-not-applicable"]++
				fmt.Printf("NOTE %s: the prefix %v is not applicable\n", name, pre)
			}
			if s.viol != "" {
				sig := c06Sig(s.viol)
				res.Failures = append(res.Failures, &vrt.Failure{Kind: "oracle", Sig: sig, Msg: fmt.Sprintf("%s history %v: %s", name, s.violHist, s.viol),
					Params: map[string]interface{}{"cfg": cfg, "hist": s.violHist}})
				res.FailCount[sig]++
			}
			w.out.Scenarios = append(w.out.Scenarios, &scenarioResult{Name: name, Params: cfg, Result: res})
		}
	}
}

// c06Sig classifies a violation for the known-findings filter.
func c06Sig(v string) string {
	switch {
	case strings.Contains(v, "Discard(0)") || (strings.Contains(v, "panic in d0@") && strings.Contains(v, "nil pointer")):
		return "known:discard0-empty"
	case strings.Contains(v, "still allocated"):
		return "leak"
	case strings.Contains(v, "changed at byte"):
		return "pin-invalidated"
	case strings.Contains(v, "panic"):
		return "panic"
	}
	return "bytes"
}

func TestVerif_C06(t *testing.T) { testVerifC06(t, "C06") }
func TestVerif_C08(t *testing.T) { testVerifC06(t, "C08") }
