//go:build verif

package shmipc

import (
	"fmt"
	"sort"
	"testing"

	"github.com/cloudwego/shmipc-go/internal/vrt"
)

// C09 — all shared memory comes back once streams are finished.
//
// Real pair, every schedule within the deviation bound, for histories that strand data in every place the code
// can hold it: unread and unreleased data on a closed stream, data arriving while / after the receiver closes,
// flushes on a stream the peer already closed, socket fallback, queue-full retries, callback mode with partial
// consumption, pinned zero-copy results, the read buffer reused as write buffer. Every history is completed by
// closing every stream on both ends (including streams the server only ever "accepted" implicitly), then the
// system runs to quiescence (1 virtual second). Oracle: no buffer of the shared memory is allocated any more
// (free count == capacity for every class, and GetMetrics().AllInUsedShareMemoryInBytes == 0).

type c09Opts struct {
	stallPeer bool // the server's event loop does not run during the workload (a peer that stopped consuming)
	name      string
	freeSmall int
	queueCap  uint32
	callback  bool
	client    func(p *ePair, k int, st *Stream) // script of client stream k (after OpenStream)
	nstreams  int
	server    func(p *ePair, st *Stream) // script for each stream the server accepts (sync mode)
	onData    func(st *Stream, r BufferReader)
	slices    []*SizePercentPair         // size classes (nil: the pair's default, 16-byte slices)
	preopen   bool                       // the (single) stream exists on both ends before the workload starts (and before the peer stalls)
	serverAny func(p *ePair, st *Stream) // with preopen: runs on the server's end at any moment of the client's script (lazy thread)
}

func c09Body(o c09Opts) func() {
	return func() {
		var srvStreams []*Stream
		lcb := &listenCB{}
		lcb.onNew = func(s *Stream) {
			srvStreams = append(srvStreams, s)
			rc := &recordingCallbacks{st: s}
			if o.onData != nil {
				rc.onData = func(r BufferReader) { o.onData(s, r) }
			}
			s.SetCallbacks(rc)
		}
		po := pairOpts{FreeSmall: o.freeSmall, QueueCap: o.queueCap, Slices: o.slices}
		if o.slices != nil {
			po.FreeOthers = -1 // (own size classes: everything allocatable)
		}
		if o.callback {
			po.ListenCB = lcb
		}
		p := newEPair(po)
		var pre, preS *Stream
		if o.preopen {
			vrt.Quiet(true)
			tc := vrt.GoProc("open-c", 1, func() {
				pre, _ = p.c.OpenStream()
				pre.BufferWriter().WriteBytes([]byte{0x55})
				pre.Flush(false)
			})
			ts := vrt.GoProc("open-s", 2, func() {
				preS, _ = p.s.AcceptStream()
				preS.BufferReader().ReadBytes(1)
				preS.BufferReader().ReleasePreviousRead()
			})
			vrt.WaitThreads(tc, ts)
			vrt.WaitIdle(0)
			vrt.Quiet(false)
			if pre == nil || preS == nil {
				vrt.Failf("harness", "could not establish the stream")
			}
			srvStreams = append(srvStreams, preS)
		}
		if o.stallPeer {
			p.router.paused[2] = true
		}
		n := o.nstreams
		if n == 0 {
			n = 1
		}
		var cliStreams []*Stream
		var ths []*vrt.Thread
		for k := 0; k < n; k++ {
			k := k
			ths = append(ths, vrt.GoProc(fmt.Sprintf("client%d", k), 1, func() {
				st := pre
				if st == nil {
					var err error
					st, err = p.c.OpenStream()
					if err != nil {
						vrt.Failf("harness", "open: %v", err)
					}
				}
				cliStreams = append(cliStreams, st)
				o.client(p, k, st)
			}))
		}
		if o.preopen && o.serverAny != nil {
			ths = append(ths, vrt.GoLazy("server-any-moment", 2, func() { o.serverAny(p, preS) }))
		}
		if !o.callback && o.server != nil {
			for k := 0; k < n; k++ {
				ths = append(ths, vrt.GoProc(fmt.Sprintf("server%d", k), 2, func() {
					st, err := p.s.AcceptStream()
					if err != nil {
						vrt.Failf("harness", "accept: %v", err)
					}
					srvStreams = append(srvStreams, st)
					o.server(p, st)
				}))
			}
		}
		vrt.WaitThreads(ths...)
		p.router.paused[2] = false
		vrt.WaitIdle(vrt.Second)
		// completion: close every stream on both ends
		fin := vrt.GoProc("finish-client", 1, func() {
			for _, st := range cliStreams {
				st.Close()
			}
		})
		vrt.WaitThreads(fin)
		vrt.WaitIdle(vrt.Second)
		fin = vrt.GoProc("finish-server", 2, func() {
			for {
				select {
				case st := <-p.s.acceptCh:
					srvStreams = append(srvStreams, st)
					continue
				default:
				}
				break
			}
			for _, st := range srvStreams {
				st.Close()
			}
			// a stream can have been "accepted again" by data that arrived after the server closed it
			p.s.streamLock.Lock()
			var rest []*Stream
			for _, st := range p.s.streams {
				rest = append(rest, st)
			}
			p.s.streamLock.Unlock()
			sort.Slice(rest, func(i, j int) bool { return rest[i].id < rest[j].id }) // map order must not leak into the schedule
			for _, st := range rest {
				st.Close()
			}
		})
		vrt.WaitThreads(fin)
		vrt.WaitIdle(vrt.Second)
		if a, b := p.c.GetActiveStreamCount(), p.s.GetActiveStreamCount(); a != 0 || b != 0 {
			vrt.Failf("streams-left", "after closing everything the client counts %d active streams, the server %d", a, b)
		}
		if n := p.inUse(); n != 0 {
			detail := ""
			for ci, l := range p.bm.lists {
				detail += fmt.Sprintf(" class%d: free %d of %d;", ci, *l.size, *l.cap)
			}
			vrt.Failf("leak", "every stream is closed on both ends and the system is quiescent: %d buffers are still allocated (%d held back by the harness);%s", n, len(p.hogged), detail)
		}
		_, _, smm := p.c.GetMetrics()
		held := uint64(0)
		for _, h := range p.hogged {
			held += uint64(h.cap)
		}
		if smm.AllInUsedShareMemoryInBytes != held {
			vrt.Failf("leak", "GetMetrics reports %d bytes in use, the harness holds %d", smm.AllInUsedShareMemoryInBytes, held)
		}
		cs, ss := &p.c.stats, &p.s.stats
		vrt.Outcome(fmt.Sprintf("clean qfull=%d fbw=%d/%d allocerr=%d accepted=%d", cs.queueFullErrorCount+ss.queueFullErrorCount, cs.fallbackWriteCount, ss.fallbackWriteCount, cs.allocShmErrorCount, len(srvStreams)))
	}
}

func c09Flush(st *Stream, stream, from, n int) error {
	st.BufferWriter().WriteBytes(patBytes(stream, from, n))
	return st.Flush(false)
}

func TestVerif_C09(t *testing.T) {
	mk := func(o c09Opts, b, bt int) bScenario {
		return bScenario{Name: o.name, Bound: b, BoundT: bt, Body: c09Body(o)}
	}
	scs := []bScenario{
		mk(c09Opts{name: "partial-read-then-close",
			client: func(p *ePair, k int, st *Stream) { c09Flush(st, 1, 0, 40); c09Flush(st, 1, 40, 5); st.Close() },
			server: func(p *ePair, st *Stream) { st.BufferReader().ReadBytes(10); st.Close() }}, 2, 3),
		mk(c09Opts{name: "close-vs-arriving-data",
			client: func(p *ePair, k int, st *Stream) { c09Flush(st, 1, 0, 20); c09Flush(st, 1, 20, 20) },
			server: func(p *ePair, st *Stream) { st.Close() }}, 2, 3),
		mk(c09Opts{name: "flush-after-peer-close",
			client: func(p *ePair, k int, st *Stream) {
				c09Flush(st, 1, 0, 5)
				st.SetReadDeadline(vrt.Now().Add(vrt.Second))
				st.BufferReader().ReadBytes(1) // returns when the server's close arrives (or after 1 s)
				c09Flush(st, 1, 5, 20)
				c09Flush(st, 1, 25, 3)
			},
			server: func(p *ePair, st *Stream) { st.Close() }}, 2, 3),
		mk(c09Opts{name: "pinned-unreleased-and-peek",
			client: func(p *ePair, k int, st *Stream) { c09Flush(st, 1, 0, 40); st.Close() },
			server: func(p *ePair, st *Stream) {
				st.BufferReader().ReadBytes(5)
				st.BufferReader().Peek(20)
				st.BufferReader().ReadBytes(20)
			}}, 1, 2),
		mk(c09Opts{name: "fallback-mixed", freeSmall: 2,
			client: func(p *ePair, k int, st *Stream) { c09Flush(st, 1, 0, 5); c09Flush(st, 1, 5, 100); st.Close() },
			server: func(p *ePair, st *Stream) { st.BufferReader().ReadBytes(5); st.Close() }}, 1, 2),
		mk(c09Opts{name: "queue-full-two-streams", queueCap: 1, nstreams: 2,
			client: func(p *ePair, k int, st *Stream) { c09Flush(st, k+1, 0, 5); c09Flush(st, k+1, 5, 20) },
			server: func(p *ePair, st *Stream) { st.BufferReader().ReadBytes(5) }}, 1, 2),
		mk(c09Opts{name: "queue-full-gives-up", queueCap: 1, stallPeer: true,
			client: func(p *ePair, k int, st *Stream) {
				c09Flush(st, 1, 0, 5)
				if err := c09Flush(st, 1, 5, 40); err != ErrQueueFull { // 10 retries against a consumer that never drains
					vrt.Failf("harness", "second flush into the stalled 1-element queue returned %v", err)
				}
				vrt.Count("gave_up_queue_full")
			}}, 1, 2),
		mk(c09Opts{name: "queue-full-flush-vs-peer-close", queueCap: 1, stallPeer: true, preopen: true,
			client: func(p *ePair, k int, st *Stream) {
				c09Flush(st, 1, 0, 5)
				if err := c09Flush(st, 1, 5, 40); err == nil { // waits in the queue-full retry loop; the peer's close may end the wait
					vrt.Failf("harness", "second flush into the stalled 1-element queue succeeded")
				} else {
					vrt.Count("flush2:" + err.Error())
				}
			},
			serverAny: func(p *ePair, st *Stream) { st.Close() }}, 1, 2),
		mk(c09Opts{name: "queue-full-flush-vs-local-session-traffic", queueCap: 1, stallPeer: true, preopen: true,
			client: func(p *ePair, k int, st *Stream) {
				c09Flush(st, 1, 0, 5)
				st.SetWriteDeadline(vrt.Now().Add(35 * ms))
				if err := c09Flush(st, 1, 5, 40); err == nil {
					vrt.Failf("harness", "second flush into the stalled 1-element queue succeeded")
				} else {
					vrt.Count("flush2:" + err.Error())
				}
			},
			serverAny: func(p *ePair, st *Stream) { c09Flush(st, 9, 0, 5) }}, 1, 2),
		mk(c09Opts{name: "reuse-read-buffer-respond",
			client: func(p *ePair, k int, st *Stream) {
				c09Flush(st, 1, 0, 10)
				st.SetReadDeadline(vrt.Now().Add(vrt.Second))
				st.BufferReader().ReadBytes(4)
				st.ReleaseReadAndReuse()
				c09Flush(st, 1, 10, 6)
			},
			server: func(p *ePair, st *Stream) {
				st.BufferReader().ReadBytes(10)
				st.ReleaseReadAndReuse()
				c09Flush(st, 9, 0, 4)
			}}, 1, 2),
		// the answer is written with Reserve after ReleaseReadAndReuse and is larger than the reused slice: it travels as
		// [empty slice] -> [data]; the receiver still holds a slice (part of an earlier message, not released) when it arrives
		mk(c09Opts{name: "reuse-then-reserve-larger-receiver-holds-a-slice",
			slices: []*SizePercentPair{{Size: 8, Percent: 1}, {Size: 32, Percent: 1}, {Size: 1 << 19, Percent: 98}},
			client: func(p *ePair, k int, st *Stream) {
				c09Flush(st, 1, 0, 6)
				st.SetReadDeadline(vrt.Now().Add(vrt.Second))
				st.BufferReader().ReadBytes(4) // part of the server's first message: held, not released
				st.BufferReader().ReadBytes(4 + 20)
			},
			server: func(p *ePair, st *Stream) {
				c09Flush(st, 9, 0, 8)
				st.SetReadDeadline(vrt.Now().Add(vrt.Second))
				st.BufferReader().ReadBytes(6)
				st.ReleaseReadAndReuse()
				if b, err := st.BufferWriter().Reserve(20); err == nil {
					copy(b, patBytes(9, 8, 20))
					st.Flush(false)
				}
			}}, 1, 2),
		mk(c09Opts{name: "response-after-client-close",
			client: func(p *ePair, k int, st *Stream) { c09Flush(st, 1, 0, 5); st.Close() },
			server: func(p *ePair, st *Stream) {
				st.BufferReader().ReadBytes(5)
				if err := c09Flush(st, 9, 0, 40); err == nil { // may reach a client that no longer knows the stream
					vrt.Count("response_flushed")
				}
				st.Close()
			}}, 1, 2),
		mk(c09Opts{name: "callback-partial-consume-then-peer-close", callback: true,
			client: func(p *ePair, k int, st *Stream) { c09Flush(st, 1, 0, 20); c09Flush(st, 1, 20, 20); st.Close() },
			onData: func(st *Stream, r BufferReader) { r.ReadBytes(3) }}, 1, 2),
		mk(c09Opts{name: "callback-close-inside-ondata", callback: true,
			client: func(p *ePair, k int, st *Stream) { c09Flush(st, 1, 0, 20); c09Flush(st, 1, 20, 20) },
			onData: func(st *Stream, r BufferReader) { r.ReadBytes(3); st.Close() }}, 1, 2),
	}
	w := newWorker(t, "C09")
	defer w.finish()
	if runHistories(w, "C09", 5, 6) {
		return
	}
	runBScenariosW(w, "C09", scs)
}
