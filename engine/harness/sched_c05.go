//go:build verif

package shmipc

import (
	"fmt"
	"io"
	"testing"

	"github.com/cloudwego/shmipc-go/internal/vrt"
)

// C05 — an enqueued element is never stranded without a wake-up.
//
// Producer side: a Session value with the real send queue, the real wakeUpPeer (markWorking CAS, fast path under
// the `writing` CAS, slow path through sendCh to the real send() loop thread) and a recording event connection.
// Each producer closes k streams: the real Stream.close() enqueues the close element and then wakes the peer.
// Consumer side: a Session value whose receive queue is the same memory (mapped view); the consumer thread takes
// one delivered polling event at a time and runs the real handlePolling (drain, markNotWorking with re-check).
// All interleavings, state-pruned. Oracle at every quiescent end state: the receive queue is empty.

type c05Params struct {
	Producers int `json:"producers"`
	Closes    int `json:"closes_per_producer"`
	Cap       int `json:"queue_cap"`
	Bound     int `json:"bound"`
	Flush     bool `json:"flush,omitempty"` // the producers' first operation on each stream is a one-byte Flush (data element) instead of a Close
}

type c05Conn struct {
	inflight int // polling events written and not yet taken by the consumer
	written  int
	bad      string
	tolerant bool
}

func (c *c05Conn) commitRead(n int)                       {}
func (c *c05Conn) setCallback(cb eventConnCallback) error { return nil }
func (c *c05Conn) writev(data ...[]byte) error            { return nil }
func (c *c05Conn) close() error                           { return nil }
func (c *c05Conn) write(data []byte) error {
	if len(data) != headerSize || header(data).MsgType() != typePolling {
		if c.tolerant {
			return nil
		}
		c.bad = fmt.Sprintf("unexpected event written: % x", data)
	}
	c.inflight++
	c.written++
	return nil
}

func c05Body(p c05Params) func() {
	return func() {
		SetLogLevel(levelNoPrint)
		vrt.ShmPoints(true)
		bufferSlicePool.Reset()
		timerPool.Reset()
		mem := make([]byte, countQueueMemSize(uint32(p.Cap)))
		sendQ := createQueueFromBytes(mem, uint32(p.Cap))
		recvQ := mappingQueueFromBytes(mem)
		conn := &c05Conn{}
		cfg := DefaultConfig()
		// (flush producers) a small buffer memory, two views: the producer allocates, the consumer - a client-mode session
		// that does not know the streams - recycles what arrives
		var bmP, bmC *bufferManager
		if p.Flush {
			vrt.ShmPointsOnly(mem)
			bmem := make([]byte, bufferManagerHeaderSize+int(countBufferListMemSize(8, 16)))
			var err error
			if bmP, err = createBufferManager([]*SizePercentPair{{Size: 16, Percent: 100}}, "", bmem, 0); err != nil {
				vrt.Failf("harness", "createBufferManager: %v", err)
			}
			if bmC, err = mappingBufferManager("", bmem, 0); err != nil {
				vrt.Failf("harness", "mappingBufferManager: %v", err)
			}
		}
		prod := &Session{
			config: cfg, logger: newLogger("p", io.Discard), streams: map[uint32]*Stream{},
			sendCh: make(chan sendReady, 16), notifyContinueWriteCh: make(chan struct{}, 1), shutdownCh: make(chan struct{}),
			isClient: true, communicationVersion: protoVersion, eventConn: conn,
			queueManager: &queueManager{sendQueue: sendQ, recvQueue: createQueue(1)}, bufferManager: bmP,
		}
		cons := &Session{
			isClient: p.Flush, bufferManager: bmC,
			config: cfg, logger: newLogger("c", io.Discard), streams: map[uint32]*Stream{},
			sendCh: make(chan sendReady, 16), notifyContinueWriteCh: make(chan struct{}, 1), shutdownCh: make(chan struct{}),
			communicationVersion: protoVersion, eventConn: &c05Conn{},
			queueManager: &queueManager{sendQueue: createQueue(1), recvQueue: recvQ},
		}
		var streams [][]*Stream
		id := uint32(1)
		for i := 0; i < p.Producers; i++ {
			var ss []*Stream
			for k := 0; k < p.Closes; k++ {
				st := newStream(prod, id)
				prod.streams[id] = st
				ss = append(ss, st)
				id += 2
			}
			streams = append(streams, ss)
		}
		handled := 0
		vrt.SetKey(func() uint64 {
			h := vrt.HashBytes(0, mem)
			h = vrt.Mix(h, uint64(prod.writing)<<32|uint64(len(prod.sendCh))<<16|uint64(len(prod.notifyContinueWriteCh))<<8|uint64(conn.inflight))
			if sendQ.Mutex.Held() {
				h = vrt.Mix(h, 99)
			}
			return h
		})
		// the real send loop of the producing session (slow path of wakeUpPeer)
		vrt.GoDaemon("send-loop", func() { prod.send() })
		var ths []*vrt.Thread
		for i := 0; i < p.Producers; i++ {
			i := i
			ths = append(ths, vrt.GoProc(fmt.Sprintf("producer%d", i), 1, func() {
				for k, st := range streams[i] {
					vrt.OpBoundary(uint64(100 + i*10 + k))
					if p.Flush {
						st.BufferWriter().WriteBytes([]byte{byte(i)})
						if err := st.Flush(false); err != nil {
							vrt.Failf("flush-error", "Stream.Flush: %v", err)
						}
						continue
					}
					if err := st.Close(); err != nil {
						vrt.Failf("close-error", "Stream.Close: %v", err)
					}
				}
				vrt.OpBoundary(uint64(199 + i*10))
			}))
		}
		vrt.GoDaemon("consumer", func() {
			for {
				vrt.OpBoundary(uint64(500 + handled))
				vrt.Point("wait-event", func() bool { return conn.inflight > 0 })
				conn.inflight--
				handled++
				if _, _, err := handlePolling(cons, header(pollingEventWithVersion[protoVersion]), nil); err != nil {
					vrt.Failf("polling-error", "handlePolling: %v", err)
				}
			}
		}).Proc = 2
		vrt.WaitThreads(ths...)
		vrt.WaitIdle(0)
		// quiescent: producers done, nothing in flight, nothing queued for the send loop, consumer idle
		if conn.inflight != 0 || len(prod.sendCh) != 0 {
			vrt.Failf("harness", "not quiescent: inflight=%d sendCh=%d", conn.inflight, len(prod.sendCh))
		}
		if conn.bad != "" {
			vrt.Failf("bad-event", "%s", conn.bad)
		}
		if n := recvQ.size(); n != 0 {
			vrt.Failf("stranded", "quiescent with %d element(s) in the receive queue: %d polling event(s) were written and all handled, workingFlag=%d", n, conn.written, *recvQ.workingFlag)
		}
		vrt.Outcome(fmt.Sprintf("events=%d", conn.written))
	}
}

func TestVerif_C05(t *testing.T) {
	w := newWorker(t, "C05")
	defer w.finish()
	var scs []c05Params
	if w.thorough() {
		scs = []c05Params{{1, 1, 4, -1, false}, {1, 2, 4, -1, false}, {2, 1, 4, -1, false}, {1, 3, 4, -1, false}, {2, 2, 4, -1, false}, {3, 1, 4, 4, false}, {3, 2, 8, 2, false}, {2, 3, 8, 2, false},
			{1, 2, 4, -1, true}, {2, 1, 4, -1, true}, {1, 3, 4, 3, true}, {2, 2, 4, 3, true}}
	} else {
		scs = []c05Params{{1, 1, 4, -1, false}, {1, 2, 4, -1, false}, {2, 1, 4, -1, false}, {3, 1, 4, 2, false}, {2, 2, 4, 2, false},
			{1, 2, 4, -1, true}, {2, 1, 4, 3, true}, {2, 2, 4, 2, true}}
	}
	for i, p := range scs {
		name := fmt.Sprintf("c05/p%dx%d-cap%d-bound%d", p.Producers, p.Closes, p.Cap, p.Bound)
		if p.Flush {
			name = fmt.Sprintf("c05/flush-p%dx%d-cap%d-bound%d", p.Producers, p.Closes, p.Cap, p.Bound)
		}
		if i == 0 {
			w.determinism(name, vrt.Options{Bound: p.Bound}, c05Body(p))
		}
		if !w.mine() {
			continue
		}
		w.explore(name, p, vrt.Options{Bound: p.Bound}, c05Body(p))
	}
}
