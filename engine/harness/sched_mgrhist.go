//go:build verif

package shmipc

import (
	"encoding/json"
	"fmt"
	"os"
	"sort"
	"strings"
	"time"

	"github.com/cloudwego/shmipc-go/internal/vrt"
)

// Manager histories (C16 / C17): an explicit-state breadth-first search over ADMINISTRATIVE histories on the real
// Listener processes and the real SessionManager (environment of sched_c16.go: real unix socket, real sessions,
// virtual time), each operation run to quiescence on the default schedule.
//
// Alphabet: S a further server starts listening on the path (taking the path over, as a starting server does);
// H the oldest server that still has sessions asks for a hot restart with the next epoch and waits until its
// listener has left the hot-restart state; X the oldest live server lets go (Listener.Close); K the oldest server
// with sessions loses one of them (server-side Session.Close); R the socket path disappears (nobody reachable);
// W 1.5 virtual seconds pass (more than the rebuild interval of 1 s); T one round trip through every pool;
// C SessionManager.Close (terminal).
//
// A state is the history that reaches it (replay on a fresh world + one operation). States are merged on: manager
// state and epoch, per pool (session open?, session epoch), number of reserve pools, per server (listening?, closed?,
// hot restart done?, open sessions), socket path present?, and the phases of the pending virtual timers (rounded to
// 100 ms) - a rebuild wait that has 300 ms to go is not the same state as one that has 900 ms to go.
//
// Every history is completed by SETTLING: if nobody listens on the path a server is started, then 7 virtual seconds
// pass (rebuild interval 1 s, hand-over timeout 2 s, handshakes). Oracles, each owned by one property:
//   C16  no listener is still in the hot-restart state and the manager is back in its default state; while no server
//        went away and no session was lost, every round trip works (old sessions stay usable until the old server lets
//        go; a hand-over that cannot complete changes nothing for the callers); HotRestart itself returns and the
//        listener leaves the state within the timeout + 2 ticks; GetStream never returns (nil, nil).
//   C17  after settling every pool holds an open session and a round trip through it works (healing, from every
//        reachable state); no call takes longer than 4 virtual seconds; the servers hold exactly as many open sessions
//        as the manager's pools and reserve pools do (a pool rebuilt twice, or a replaced session left open, shows
//        as a surplus); after SessionManager.Close: no watcher left, pool sessions closed, GetStream fails, and nothing
//        is established any more however long one waits.

type mhServer struct {
	l      *Listener
	tag    byte
	proc   int
	closed bool
}

type mhWorld struct {
	*hrWorld
	prop      string
	hist      string
	servers   []*mhServer
	epoch     uint64
	lossEver  bool // a server went away, a session was lost or the path disappeared at some point of the history
	closedSM  bool
	listening *mhServer // who owns the path (nil: nobody reachable)
}

func (w *mhWorld) own(p string) bool { return w.prop == p || w.prop == "ALL" }

func (w *mhWorld) fail(prop, sig, format string, a ...interface{}) {
	if w.own(prop) {
		vrt.Failf(sig, "history [%s]: %s", w.hist, fmt.Sprintf(format, a...))
	}
}

func newMHWorld(prop string, pools int) *mhWorld {
	w := &mhWorld{prop: prop, epoch: 1023}
	w.hrWorld = newHRWorld(pools, vrt.Second)
	s := &mhServer{l: w.oldL, tag: 'O', proc: 2}
	w.servers = []*mhServer{s}
	w.listening = s
	return w
}

func (w *mhWorld) openSessions(s *mhServer) int {
	n := 0
	for _, ss := range w.serverSessions(s.l) {
		if !ss.IsClosed() {
			n++
		}
	}
	return n
}

func (w *mhWorld) oldestWithSessions() *mhServer {
	for _, s := range w.servers {
		if !s.closed && w.openSessions(s) > 0 {
			return s
		}
	}
	return nil
}

func (w *mhWorld) run(proc int, maxAdvance vrt.Duration, f func()) {
	t := vrt.GoProc("op", proc, f)
	vrt.WaitThreads(t)
	vrt.WaitIdle(maxAdvance)
}

// probe does one round trip through every pool; returns tags and errors.
func (w *mhWorld) probe() ([]byte, []error) {
	var tags []byte
	var errs []error
	slow := 0
	w.run(1, 0, func() {
		for i := 0; i < w.n; i++ {
			w.sm.count = uint64(i*sessionRoundRobinThreshold) + 1
			t0 := vrt.VNow()
			tag, err := w.roundTrip(20 + i)
			if vrt.VNow()-t0 > int64(4*vrt.Second) {
				slow++
			}
			tags = append(tags, tag)
			errs = append(errs, err)
		}
	})
	if slow > 0 {
		w.fail("C17", "call-hangs", "%d calls took longer than 4 virtual seconds", slow)
	}
	return tags, errs
}

func (w *mhWorld) startServer() {
	tag := byte('O' + len(w.servers))
	proc := 2 + len(w.servers)
	l := w.startListener(proc, tag)
	s := &mhServer{l: l, tag: tag, proc: proc}
	w.servers = append(w.servers, s)
	w.listening = s
	vrt.WaitIdle(0)
}

// op runs one operation; false = not applicable in this state.
func (w *mhWorld) op(o string) bool {
	if w.closedSM {
		return false
	}
	switch o {
	case "S":
		if len(w.servers) >= 3 {
			return false
		}
		w.startServer()
	case "H":
		s := w.oldestWithSessions()
		if s == nil {
			return false
		}
		w.epoch++
		ep := w.epoch
		// can this hand-over complete? another server owns the path, the manager is at rest, every pool holds an open
		// session and all of them are the requesting server's
		canComplete := w.listening != nil && w.listening != s && w.openSessions(s) == w.n
		if st, _, _ := w.smState(); st != defaultState {
			canComplete = false
		}
		for _, p := range w.sm.pools {
			if p.Session().IsClosed() {
				canComplete = false
			}
		}
		for _, o := range w.servers {
			if o != s && !o.closed && w.openSessions(o) > 0 {
				canComplete = false
			}
		}
		var err error
		var took int64
		w.run(s.proc, 0, func() {
			t0 := vrt.VNow()
			err = s.l.HotRestart(ep)
			if err != nil {
				return
			}
			for !s.l.IsHotRestartDone() {
				if vrt.VNow()-t0 > int64(4*vrt.Second) {
					break
				}
				vrt.Sleep(100 * ms)
			}
			took = vrt.VNow() - t0
		})
		if err != nil {
			w.fail("C16", "hotrestart-error", "H: Listener.HotRestart(%d) of server %c: %v", ep, s.tag, err)
		} else if took > int64(hotRestartCheckTimeout)+int64(2*hotRestartCheckInterval) {
			w.fail("C16", "listener-late", "H: server %c left the hot-restart state after %d ms (timeout %d ms + ticks)", s.tag, took/1e6, int64(hotRestartCheckTimeout)/1e6)
		} else if canComplete {
			// nothing stood in the way: every pool must now hold a session of the announced epoch on the server that listens
			for i, p := range w.sm.pools {
				if e := p.Session().epochID; e != ep || p.Session().IsClosed() {
					w.fail("C16", "not-moved", "H: server %c asked for a hot restart to epoch %d with server %c listening, the manager at rest and all %d sessions alive; afterwards pool %d holds a session of epoch %d (closed=%v) - the listener reported the hand-over done after %d ms", s.tag, ep, w.listening.tag, w.n, i, e, p.Session().IsClosed(), took/1e6)
				}
			}
		}
	case "X":
		var s *mhServer
		for _, c := range w.servers {
			if !c.closed {
				s = c
				break
			}
		}
		if s == nil {
			return false
		}
		w.run(s.proc, 0, func() { s.l.Close() })
		s.closed = true
		w.lossEver = true
		if w.listening == s {
			w.listening = nil
			os.Remove(w.path)
		}
	case "K":
		s := w.oldestWithSessions()
		if s == nil {
			return false
		}
		w.run(s.proc, 0, func() {
			for _, ss := range w.serverSessions(s.l) {
				if !ss.IsClosed() {
					ss.Close()
					break
				}
			}
		})
		w.lossEver = true
	case "R":
		if w.listening == nil {
			return false
		}
		os.Remove(w.path)
		w.listening = nil
		w.lossEver = true
	case "W":
		vrt.WaitIdle(1500 * ms)
	case "T":
		tags, errs := w.probe()
		if !w.lossEver {
			for i, e := range errs {
				if e != nil {
					w.fail("C16", "traffic-error", "T: no server went away and no session was lost, pool %d's round trip failed: %v", i, e)
				}
			}
		}
		_ = tags
	case "C":
		w.run(1, 0, func() { w.sm.Close() })
		w.closedSM = true
	default:
		return false
	}
	return true
}

func (w *mhWorld) key() string {
	var b strings.Builder
	st, ep, nres := w.smState()
	fmt.Fprintf(&b, "sm%d/%d/r%d", st, ep-1023*btoi(ep >= 1023), nres)
	for i, p := range w.sm.pools {
		s := p.Session()
		e := s.epochID
		if e >= 1023 {
			e -= 1023
		}
		fmt.Fprintf(&b, "|p%d:%v,e%d", i, s.IsClosed(), e)
	}
	for _, s := range w.servers {
		fmt.Fprintf(&b, "|%c:c%v,l%v,d%v,n%d", s.tag, s.closed, w.listening == s, s.l.IsHotRestartDone(), w.openSessions(s))
	}
	fmt.Fprintf(&b, "|loss%v|closed%v|t%v", w.lossEver, w.closedSM, vrt.TimerPhases(100*ms))
	return b.String()
}

func btoi(b bool) uint64 {
	if b {
		return 1
	}
	return 0
}

// settle completes a history and evaluates the end-of-history oracles.
func (w *mhWorld) settle() {
	if w.closedSM {
		before := 0
		for _, s := range w.servers {
			if !s.closed {
				before += w.openSessions(s)
			}
		}
		if w.listening == nil {
			w.startServer()
		}
		vrt.WaitIdle(4 * vrt.Second)
		if n := w.sm.wg.Count(); n != 0 {
			w.fail("C17", "watchers-left", "%d watcher goroutines still registered after SessionManager.Close", n)
		}
		for i, p := range w.sm.pools {
			if !p.Session().IsClosed() {
				w.fail("C17", "not-closed", "pool %d still holds an open session after SessionManager.Close", i)
			}
		}
		after := 0
		for _, s := range w.servers {
			if !s.closed {
				after += w.openSessions(s)
			}
		}
		if after > before {
			w.fail("C17", "not-closed", "the servers held %d open sessions when SessionManager.Close returned and %d four seconds later: something is still being established", before, after)
		}
		var gerr error
		w.run(1, 0, func() { _, gerr = w.sm.GetStream() })
		if gerr == nil {
			w.fail("C17", "not-closed", "GetStream on a closed SessionManager returned a stream")
		}
		return
	}
	if w.listening == nil {
		w.startServer()
	}
	vrt.WaitIdle(7 * vrt.Second)
	st, _, _ := w.smState()
	if st == hotRestartState {
		w.fail("C16", "manager-stuck", "7 virtual seconds after the last operation the session manager is still in the hot-restart state")
	}
	for _, s := range w.servers {
		if !s.closed && !s.l.IsHotRestartDone() {
			w.fail("C16", "listener-stuck", "7 virtual seconds after the last operation server %c is still in the hot-restart state", s.tag)
		}
	}
	tags, errs := w.probe()
	alive := map[byte]bool{}
	for _, s := range w.servers {
		if !s.closed {
			alive[s.tag] = true
		}
	}
	for i := range errs {
		if errs[i] != nil {
			w.fail("C17", "not-healed", "a server is listening and 7 virtual seconds have passed: pool %d's round trip fails: %v (pool session closed=%v)", i, errs[i], w.sm.pools[i].Session().IsClosed())
		} else if !alive[tags[i]] {
			w.fail("C17", "not-healed", "pool %d is answered by server %c, which was closed", i, tags[i])
		}
	}
	srv := 0
	for _, s := range w.servers {
		if !s.closed {
			srv += w.openSessions(s)
		}
	}
	cli := 0
	w.sm.RLock()
	pools := append([]*streamPool{}, w.sm.pools...)
	for _, k := range vrt.SortedKeys(w.sm.reservePools) {
		pools = append(pools, w.sm.reservePools[k])
	}
	w.sm.RUnlock()
	seen := map[*Session]bool{}
	for _, p := range pools {
		if s := p.Session(); s != nil && !s.IsClosed() && !seen[s] {
			seen[s] = true
			cli++
		}
	}
	if srv != cli {
		w.fail("C17", "session-surplus", "at rest the live servers hold %d open sessions, the manager's pools (%d) and reserve pools (%d) hold %d: a pool was rebuilt twice or a replaced session was left open", srv, len(w.sm.pools), len(pools)-len(w.sm.pools), cli)
	}
}

var mhAlphabet = []string{"S", "H", "X", "K", "R", "W", "T", "C"}

type mhRun struct {
	Viol, Sig, Key string
	Enabled        bool
	Steps          int
}

func mhRunPath(prop string, pools int, path []string) mhRun {
	var out mhRun
	body := func() {
		w := newMHWorld(prop, pools)
		w.hist = strings.Join(path, " ")
		for _, o := range path {
			if !w.op(o) {
				vrt.Outcome("skip")
				return
			}
		}
		out.Enabled = true
		out.Key = w.key()
		w.settle()
		vrt.Outcome("ok")
	}
	x := vrt.RunOnce(vrt.Options{Bound: 0, StepLimit: 200000, FailOnHorizon: true}, nil, body)
	out.Steps = len(x.Steps)
	if x.Fail != nil {
		out.Viol, out.Sig = x.Fail.Msg, x.Fail.Sig
		if out.Sig == "" {
			out.Sig = x.Fail.Kind
		}
		if x.Fail.Kind != "oracle" {
			out.Viol = fmt.Sprintf("history [%s]: %s: %s", strings.Join(path, " "), x.Fail.Kind, x.Fail.Msg)
		}
	}
	return out
}

type mhFound struct {
	Key  string   `json:"key"`
	Path []string `json:"path"`
}

type mhLevel struct {
	States []mhFound `json:"states"`
	Trans  int64     `json:"trans"`
	Steps  int64     `json:"steps"`
	Viols  []hViolM  `json:"viols,omitempty"`
}

type hViolM struct {
	Sig, Msg string
	Path     []string
}

type mhParams struct {
	Pools int      `json:"pools"`
	Path  []string `json:"path"`
}

func mgrHistBFS(w *worker, prop string, pools, depth int) *vrt.Result {
	name := fmt.Sprintf("%s/mgrhist-pools%d", prop, pools)
	res := &vrt.Result{Name: name, Exhaustive: true, Outcomes: map[string]int64{}, Counts: map[string]int64{}, FailCount: map[string]int64{}}
	dir := os.Getenv("VERIF_SCRATCH")
	if dir == "" {
		dir = os.TempDir()
	}
	dir = fmt.Sprintf("%s/mgrhist.%s.%s.%d", dir, prop, w.tier, pools)
	os.MkdirAll(dir, 0o755)
	seen := map[string]bool{"": true}
	frontier := []mhFound{{}}
	for level := 1; level <= depth && len(frontier) > 0; level++ {
		mine := mhLevel{}
		for i, st := range frontier {
			if i%w.shardN != w.shardI {
				continue
			}
			if w.expired() {
				break
			}
			for _, o := range mhAlphabet {
				path := append(append([]string{}, st.Path...), o)
				r := mhRunPath(prop, pools, path)
				if !r.Enabled && r.Viol == "" {
					continue
				}
				mine.Trans++
				mine.Steps += int64(r.Steps)
				if r.Viol != "" {
					if len(mine.Viols) < 4 {
						mine.Viols = append(mine.Viols, hViolM{r.Sig, r.Viol, path})
					}
					continue
				}
				mine.States = append(mine.States, mhFound{r.Key, path})
			}
		}
		b, _ := json.Marshal(mine)
		tmp := fmt.Sprintf("%s/L%d.%d.tmp", dir, level, w.shardI)
		os.WriteFile(tmp, b, 0o644)
		os.Rename(tmp, fmt.Sprintf("%s/L%d.%d.json", dir, level, w.shardI))
		var next []mhFound
		for i := 0; i < w.shardN; i++ {
			var lv mhLevel
			for {
				b, err := os.ReadFile(fmt.Sprintf("%s/L%d.%d.json", dir, level, i))
				if err == nil && json.Unmarshal(b, &lv) == nil {
					break
				}
				if w.expired() {
					res.Exhaustive, res.CapHit = false, fmt.Sprintf("deadline in level %d (levels below it complete)", level)
					if w.shardI == 0 {
						res.States = int64(len(seen))
					}
					return res
				}
				time.Sleep(5 * time.Millisecond)
			}
			if w.shardI == 0 {
				res.Transitions += lv.Trans
				res.Execs += lv.Trans
				res.Counts["scheduler-steps"] += lv.Steps
				for _, v := range lv.Viols {
					res.FailCount[v.Sig]++
					if res.FailCount[v.Sig] == 1 {
						res.Failures = append(res.Failures, &vrt.Failure{Kind: "oracle", Sig: v.Sig, Msg: v.Msg, Params: mhParams{pools, v.Path}})
					}
				}
			}
			for _, s := range lv.States {
				if !seen[s.Key] {
					seen[s.Key] = true
					next = append(next, s)
				}
			}
		}
		sort.SliceStable(next, func(i, j int) bool { return len(next[i].Path) < len(next[j].Path) })
		frontier = next
		if w.shardI == 0 {
			res.Counts[fmt.Sprintf("new-states-level-%d", level)] = int64(len(next))
		}
		if w.expired() {
			res.Exhaustive, res.CapHit = false, fmt.Sprintf("deadline after level %d", level)
			break
		}
	}
	if w.shardI == 0 {
		res.States = int64(len(seen))
		res.Outcomes[fmt.Sprintf("mgrhist-pools%d-states", pools)] = int64(len(seen))
		res.Counts["frontier-left-at-depth-bound"] = int64(len(frontier))
		if len(w.out.Samples) < 2 && len(frontier) > 0 {
			w.out.Samples = append(w.out.Samples, map[string]interface{}{"history": frontier[len(frontier)/2].Path, "pools": pools})
		}
	}
	return res
}

// runMgrHistories is the entry used by the checks of C16 and C17; true = the run was a replay of a history.
func runMgrHistories(w *worker, prop string, depthQuick, depthThorough int) bool {
	if w.replay != nil {
		if !strings.HasPrefix(w.replay.Scenario, prop+"/mgrhist") {
			return false
		}
		var hp mhParams
		json.Unmarshal(w.replay.Params, &hp)
		for i := 0; i < 5; i++ {
			r := mhRunPath(prop, hp.Pools, hp.Path)
			fmt.Printf("REPLAY run=%d scenario=%s steps=%d fail_sig=%q msg=%q\n", i, w.replay.Scenario, r.Steps, r.Sig, r.Viol)
		}
		return true
	}
	if h := os.Getenv("VERIF_MGRHIST"); h != "" {
		t0 := time.Now()
		r := mhRunPath(prop, envInt("VERIF_MGRHIST_POOLS", 1), strings.Fields(h))
		fmt.Printf("DEBUG mgrhist %q: %+v (%v)\n", h, r, time.Since(t0))
		return true
	}
	depth := depthQuick
	if w.thorough() {
		depth = depthThorough
	}
	for _, pools := range []int{1, 2} {
		d := depth
		if pools == 2 {
			d-- // (two pools: one level less)
		}
		r := mgrHistBFS(w, prop, pools, d)
		w.out.Scenarios = append(w.out.Scenarios, &scenarioResult{Name: r.Name, Params: map[string]interface{}{"depth": d, "pools": pools}, Result: r})
	}
	return false
}
