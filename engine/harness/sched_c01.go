//go:build verif

package shmipc

import (
	"fmt"
	"os"
	"strings"
	"testing"
	"unsafe"

	"github.com/cloudwego/shmipc-go/internal/vrt"
)

// C01 / C02 — the shared-memory free list: exclusive ownership and conservation.
//
// Real bufferList.pop / push (and bufferManager alloc / recycle) over one []byte seen through the creator's
// and the mapper's view. Threads run programs over {A = allocate, Ro = recycle oldest held, Rn = recycle newest
// held}; all interleavings at the granularity of single shared-memory accesses, state-pruned.
//
// C01 oracles: a returned buffer is held by nobody, lies on a slot boundary with the advertised capacity; a
// holder's header/payload signature is intact when it verifies.
// C02 oracles: size + held <= cap after every access to size; at quiescence, after a sequential drain,
// size == cap and the free chain visits cap distinct slots and ends at tail.

type c01Params struct {
	Slots    int      `json:"slots"`
	Programs []string `json:"programs"` // one per thread, letters A, o (recycle oldest), n (recycle newest)
	Retry    int      `json:"retry_bound"`
	Level    string   `json:"level"` // list | manager
	Bound    int      `json:"bound,omitempty"` // 0: all interleavings (state-pruned); n > 0: at most n preemptions
	Label    string   `json:"label,omitempty"`
}

const c01Cap = 8 // payload bytes per slot

type c01Held struct {
	class  int
	s      *bufferSlice
	off    uint32
	sig    uint32
	linked bool
	next   uint32
}

type c01World struct {
	p        c01Params
	mem      []byte
	views    [2]*bufferList   // list level: creator / mapper view of the single class
	lists    []*bufferList    // creator views of all classes (monitors, quiescent walk)
	mlists   []*bufferList    // mapper views of all classes
	mgrs     [2]*bufferManager // manager level: creator / mapper view
	owner    map[uint32]int
	held     [][]*c01Held
	pc       []int
	inPop    []bool
	remember []int64 // value of head the thread loaded in its current pop attempt (-1 none), per thread
	remList  []int   // ... and the class it belongs to
	stale    []bool  // that slot was popped by someone since
	failedA  []int
}

func slotSizeOf(l *bufferList) uint32 { return *l.capPerBuffer + bufferHeaderSize }

func (w *c01World) summary(t int) uint64 {
	h := uint64(1000 + t*100 + w.pc[t])
	for _, e := range w.held[t] {
		h = vrt.Mix(h, uint64(e.off)<<1|b2u(e.linked))
	}
	return vrt.Mix(h, uint64(w.failedA[t]))
}

func b2u(b bool) uint64 {
	if b {
		return 1
	}
	return 0
}

func (w *c01World) key() uint64 {
	h := vrt.HashBytes(0, w.mem)
	for t := range w.remember {
		h = vrt.Mix(h, uint64(w.remember[t]+1)<<4|uint64(w.remList[t])<<1|b2u(w.stale[t]))
	}
	return h
}

// monitor implements the per-access oracles and the root-cause signature of the known ABA defect.
func (w *c01World) monitor() func(op vrt.AtomicOp) {
	type li struct {
		l            *bufferList
		headP, sizeP unsafe.Pointer
		capN         int32
	}
	var ls []li
	for _, l := range w.lists {
		ls = append(ls, li{l, unsafe.Pointer(l.head), unsafe.Pointer(l.size), int32(*l.cap)})
	}
	return func(op vrt.AtomicOp) {
		t := op.Thread - 1 // thread ids: 0 = main, workers 1..n
		for ci, e := range ls {
			l := e.l
			switch {
			case op.Addr == e.sizeP:
				nheld := 0
				for _, hs := range w.held {
					for _, h := range hs {
						if h.class == ci {
							nheld++
						}
					}
				}
				if *l.size+int32(nheld) > e.capN {
					vrt.Failf("conservation", "class %d: free count %d + held %d exceeds capacity %d", ci, *l.size, nheld, e.capN)
				}
			case op.Addr == e.headP && op.Kind == "cas" && op.Ok:
				slot := int64(op.Old)
				if t >= 0 && t < len(w.remember) && w.inPop[t] && w.remList[t] == ci && w.remember[t] == slot && w.stale[t] {
					// the slot left the list and came back to its head between this thread's load of head and its CAS: ABA.
					hdr := bufferHeader(l.bufferRegion[op.Old : uint32(op.Old)+bufferHeaderSize])
					curNext := *(*uint32)(unsafe.Pointer(&hdr[nextBufferOffset]))
					if hdr[bufferFlagOffset]&hasNextBufferFlag == 0 || curNext != uint32(op.New) {
						vrt.Count("aba_stale_cas")
						if os.Getenv("VERIF_NOSIG") != "" {
							return // diagnostic mode: let the consequence reach the plain oracles
						}
						vrt.Failf("known:aba-pop", "bufferList.pop: head CAS(%d -> %d) succeeded although slot %d was allocated and recycled since this thread loaded head; the slot's current link is %d", op.Old, op.New, op.Old, curNext)
					}
				}
				for o := range w.remember {
					if w.remList[o] == ci && w.remember[o] == slot && o != t {
						w.stale[o] = true
					}
				}
			case op.Addr == e.headP && op.Kind == "load" && t >= 0 && t < len(w.inPop) && w.inPop[t]:
				// pop's load of head opens the window that its CAS closes
				w.remember[t] = int64(op.New)
				w.remList[t] = ci
				w.stale[t] = false
				vrt.Count("pop_head_load")
			}
		}
	}
}

func (w *c01World) classOf(off uint32) (int, *bufferList) {
	for ci, l := range w.lists {
		if off >= l.bufferRegionOffsetInShm && off < l.bufferRegionOffsetInShm+uint32(len(l.bufferRegion)) {
			return ci, l
		}
	}
	return -1, nil
}

func (w *c01World) checkNew(t int, s *bufferSlice) *c01Held {
	off := s.offsetInShm
	if o, dup := w.owner[off]; dup {
		vrt.Failf("double-owner", "thread %d was handed buffer %d which thread %d still holds", t, off, o)
	}
	ci, l := w.classOf(off)
	if l == nil {
		vrt.Failf("misplaced", "buffer offset %d lies in no size class", off)
	}
	ss := slotSizeOf(l)
	rel := off - l.bufferRegionOffsetInShm
	if rel%ss != 0 || rel/ss >= *l.cap {
		vrt.Failf("misplaced", "buffer offset %d is not a slot boundary of its class", off)
	}
	if s.cap != *l.capPerBuffer || uint32(len(s.data)) != *l.capPerBuffer {
		vrt.Failf("capacity", "buffer %d advertised capacity %d, slice has cap %d len %d", off, *l.capPerBuffer, s.cap, len(s.data))
	}
	for o := range w.owner {
		_, ol := w.classOf(o)
		if (o < off && o+slotSizeOf(ol) > off) || (off < o && off+ss > o) {
			vrt.Failf("overlap", "buffer %d overlaps held buffer %d", off, o)
		}
	}
	w.owner[off] = t
	return &c01Held{class: ci, s: s, off: off}
}

// sign writes the holder's signature the way a message writer does (bufferSlice.update): size and start in the
// header, payload bytes; with chain=true the previous held buffer is linked to this one (linkNext).
func (w *c01World) sign(t int, e *c01Held) {
	e.sig = uint32(0xA0000000 | t<<16 | w.pc[t]<<8 | int(e.off&0xff))
	vrt.NoSwitch(func() {
		*(*uint32)(unsafe.Pointer(&e.s.bufferHeader[bufferSizeOffset])) = e.sig
		*(*uint32)(unsafe.Pointer(&e.s.bufferHeader[bufferDataStartOffset])) = ^e.sig
		for i := range e.s.data {
			e.s.data[i] = byte(e.sig >> (8 * (uint(i) % 4)))
		}
	})
	if n := len(w.held[t]); n > 0 {
		prev := w.held[t][n-1]
		if !prev.linked {
			prev.s.bufferHeader.linkNext(e.off) // instrumented: two scheduling points
			prev.linked, prev.next = true, e.off
		}
	}
}

func (w *c01World) verify(t int, e *c01Held) {
	var bad string
	vrt.NoSwitch(func() {
		h := e.s.bufferHeader
		if got := *(*uint32)(unsafe.Pointer(&h[bufferSizeOffset])); got != e.sig {
			bad = fmt.Sprintf("size field %#x, wrote %#x", got, e.sig)
		}
		if got := *(*uint32)(unsafe.Pointer(&h[bufferDataStartOffset])); got != ^e.sig {
			bad = fmt.Sprintf("start field %#x, wrote %#x", got, ^e.sig)
		}
		for i := range e.s.data {
			if e.s.data[i] != byte(e.sig>>(8*(uint(i)%4))) {
				bad = fmt.Sprintf("payload byte %d", i)
			}
		}
		fl := h[bufferFlagOffset]
		if fl&sliceInUsedFlag == 0 {
			bad = "in-use flag cleared"
		}
		if e.linked {
			if fl&hasNextBufferFlag == 0 || *(*uint32)(unsafe.Pointer(&h[nextBufferOffset])) != e.next {
				bad = "chain link altered"
			}
		} else if fl&hasNextBufferFlag != 0 {
			bad = "chain flag set by someone else"
		}
	})
	if bad != "" {
		vrt.Failf("altered", "buffer %d held by thread %d was altered by someone else: %s", e.off, t, bad)
	}
}

func (w *c01World) walkQuiescent(l *bufferList, what string) {
	ss := slotSizeOf(l)
	if *l.size != int32(*l.cap) {
		vrt.Failf("lost-buffers", "%s: after everything was recycled free count is %d, capacity %d", what, *l.size, *l.cap)
	}
	seen := map[uint32]bool{}
	cur := *l.head
	for i := uint32(0); ; i++ {
		if cur%ss != 0 || cur/ss >= *l.cap {
			vrt.Failf("chain-corrupt", "%s: free chain reaches invalid offset %d", what, cur)
		}
		if seen[cur] {
			vrt.Failf("chain-corrupt", "%s: free chain visits slot %d twice", what, cur)
		}
		seen[cur] = true
		h := bufferHeader(l.bufferRegion[cur : cur+bufferHeaderSize])
		if h[bufferFlagOffset]&hasNextBufferFlag == 0 {
			break
		}
		cur = *(*uint32)(unsafe.Pointer(&h[nextBufferOffset]))
	}
	if uint32(len(seen)) != *l.cap {
		vrt.Failf("chain-corrupt", "%s: free chain visits %d of %d slots", what, len(seen), *l.cap)
	}
	if cur != *l.tail {
		vrt.Failf("chain-corrupt", "%s: free chain ends at %d, tail is %d", what, cur, *l.tail)
	}
}

func c01Body(p c01Params) func() {
	return func() {
		nt := len(p.Programs)
		w := &c01World{p: p, owner: map[uint32]int{}, held: make([][]*c01Held, nt), pc: make([]int, nt),
			inPop: make([]bool, nt), remember: make([]int64, nt), remList: make([]int, nt), stale: make([]bool, nt), failedA: make([]int, nt)}
		for i := range w.remember {
			w.remember[i] = -1
		}
		vrt.SetRetryBound(p.Retry)
		bufferSlicePool.Reset()
		var err error
		if p.Level == "manager-exact" {
			// one size class in a memory that is exactly as large as the class needs: the last slot ends at len(mem)
			w.mem = make([]byte, bufferManagerHeaderSize+int(countBufferListMemSize(uint32(p.Slots), 8)))
			pairs := []*SizePercentPair{{Size: 8, Percent: 100}}
			if w.mgrs[0], err = createBufferManager(pairs, "", w.mem, 0); err != nil {
				vrt.Failf("setup", "createBufferManager: %v", err)
			}
			if w.mgrs[1], err = mappingBufferManager("", w.mem, 0); err != nil {
				vrt.Failf("setup", "mappingBufferManager: %v", err)
			}
			w.lists, w.mlists = w.mgrs[0].lists, w.mgrs[1].lists
			l := w.lists[0]
			if len(w.lists) != 1 || int(*l.cap) != p.Slots || int(l.bufferRegionOffsetInShm)+int(*l.cap)*int(slotSizeOf(l)) != len(w.mem) {
				vrt.Failf("setup", "unexpected layout: %d classes, %d slots, region ends at %d of %d", len(w.lists), *l.cap, int(l.bufferRegionOffsetInShm)+int(*l.cap)*int(slotSizeOf(l)), len(w.mem))
			}
		} else if p.Level == "manager" || p.Level == "manager3" {
			// two size classes: 3 slots of 8 bytes and 2 slots of 16 bytes (260 bytes of "shared memory");
			// level "manager3": 3 slots of each (two of the large class allocatable at a time)
			w.mem = make([]byte, 260)
			pairs := []*SizePercentPair{{Size: 8, Percent: 50}, {Size: 16, Percent: 50}}
			if p.Level == "manager3" {
				w.mem = make([]byte, 280)
				pairs = []*SizePercentPair{{Size: 8, Percent: 45}, {Size: 16, Percent: 55}}
			}
			if w.mgrs[0], err = createBufferManager(pairs, "", w.mem, 0); err != nil {
				vrt.Failf("setup", "createBufferManager: %v", err)
			}
			if w.mgrs[1], err = mappingBufferManager("", w.mem, 0); err != nil {
				vrt.Failf("setup", "mappingBufferManager: %v", err)
			}
			w.lists, w.mlists = w.mgrs[0].lists, w.mgrs[1].lists
			want1 := uint32(2)
			if p.Level == "manager3" {
				want1 = 3
			}
			if len(w.lists) != 2 || *w.lists[0].cap != 3 || *w.lists[1].cap != want1 {
				vrt.Failf("setup", "unexpected layout: %d classes", len(w.lists))
			}
		} else {
			w.mem = make([]byte, countBufferListMemSize(uint32(p.Slots), c01Cap))
			if w.views[0], err = createFreeBufferList(uint32(p.Slots), c01Cap, w.mem, 0); err != nil {
				vrt.Failf("setup", "create: %v", err)
			}
			if w.views[1], err = mappingFreeBufferList(w.mem, 0); err != nil {
				vrt.Failf("setup", "mapping: %v", err)
			}
			w.lists, w.mlists = []*bufferList{w.views[0]}, []*bufferList{w.views[1]}
		}
		vrt.SetKey(w.key)
		vrt.OnAtomic(w.monitor())
		took := func(t int, s *bufferSlice) {
			e := w.checkNew(t, s)
			w.sign(t, e)
			w.held[t] = append(w.held[t], e)
		}
		release := func(t int, i int) *c01Held {
			e := w.held[t][i]
			w.verify(t, e)
			w.held[t] = append(w.held[t][:i:i], w.held[t][i+1:]...)
			delete(w.owner, e.off)
			return e
		}
		var ths []*vrt.Thread
		for t := 0; t < nt; t++ {
			t := t
			l := w.views[t%2]
			m := w.mgrs[t%2]
			prog := p.Programs[t]
			ths = append(ths, vrt.GoProc(fmt.Sprintf("t%d", t), 1+t%2, func() {
				for w.pc[t] = 0; w.pc[t] < len(prog); w.pc[t]++ {
					vrt.OpBoundary(w.summary(t))
					op := prog[w.pc[t]]
					switch op {
					case 'A', 'a', 'b': // allocate: list pop / manager alloc of 8 / of 16 bytes
						w.inPop[t] = true
						var s *bufferSlice
						var err error
						switch op {
						case 'A':
							s, err = l.pop()
						case 'a':
							s, err = m.allocShmBuffer(8)
						case 'b':
							s, err = m.allocShmBuffer(16)
						}
						w.inPop[t] = false
						w.remember[t], w.stale[t] = -1, false
						if err != nil {
							w.failedA[t]++
							vrt.Count("alloc_failed")
							continue
						}
						took(t, s)
					case 'm': // multi-slice allocation of 20 bytes (largest class first)
						sl := newSliceList()
						w.inPop[t] = true
						got := m.allocShmBuffers(sl, 20)
						w.inPop[t] = false
						w.remember[t], w.stale[t] = -1, false
						sum := int64(0)
						for s := sl.front(); s != nil; {
							nx := s.nextSlice
							s.nextSlice = nil
							sum += int64(s.cap)
							took(t, s)
							s = nx
						}
						if sum != got {
							vrt.Failf("alloc-size", "allocShmBuffers reported %d bytes, slices hold %d", got, sum)
						}
						if got < 20 {
							w.failedA[t]++
							vrt.Count("alloc_short")
						}
					case 'o', 'n': // recycle the oldest / newest held buffer
						if len(w.held[t]) == 0 {
							continue
						}
						i := 0
						if op == 'n' {
							i = len(w.held[t]) - 1
						}
						e := release(t, i)
						if m != nil {
							m.recycleBuffer(e.s)
						} else {
							l.push(e.s)
						}
					case 'c': // recycle the whole held chain by its head (follows the links in shared memory)
						if len(w.held[t]) == 0 {
							continue
						}
						head := w.held[t][0].s
						for len(w.held[t]) > 0 {
							release(t, 0)
						}
						m.recycleBuffers(head)
						vrt.Count("chain_recycled")
					}
				}
				vrt.OpBoundary(w.summary(t))
			}))
		}
		vrt.WaitThreads(ths...)
		// quiescence: verify and recycle everything still held, sequentially
		out := ""
		for t := 0; t < nt; t++ {
			out += fmt.Sprintf("t%d:held%d,fail%d ", t, len(w.held[t]), w.failedA[t])
			for len(w.held[t]) > 0 {
				e := release(t, 0)
				if w.mgrs[t%2] != nil {
					w.mgrs[t%2].recycleBuffer(e.s)
				} else {
					w.views[t%2].push(e.s)
				}
			}
		}
		for ci := range w.lists {
			w.walkQuiescent(w.lists[ci], fmt.Sprintf("class %d creator view", ci))
			w.walkQuiescent(w.mlists[ci], fmt.Sprintf("class %d mapper view", ci))
		}
		vrt.Outcome(out)
	}
}

// c01Programs lists the canonical programs of length 1..maxLen: recycling only when something can be held,
// 'n' only when at least two buffers can be held (otherwise it equals 'o').
func c01Programs(maxLen int) []string {
	var out []string
	var rec func(prefix string, held int)
	rec = func(prefix string, held int) {
		if len(prefix) > 0 {
			out = append(out, prefix)
		}
		if len(prefix) == maxLen {
			return
		}
		rec(prefix+"A", held+1)
		if held >= 1 {
			rec(prefix+"o", held-1)
		}
		if held >= 2 {
			rec(prefix+"n", held-1)
		}
	}
	rec("", 0)
	// shortest first
	for i := 0; i < len(out); i++ {
		for j := i + 1; j < len(out); j++ {
			if len(out[j]) < len(out[i]) {
				out[i], out[j] = out[j], out[i]
			}
		}
	}
	return out
}

// c01MgrPrograms lists manager-level programs over a (alloc 8), b (alloc 16), m (multi-slice alloc), o (recycle
// oldest), c (recycle the held chain through its shared-memory links).
func c01MgrPrograms(maxLen int) []string {
	var out []string
	var rec func(prefix string, held int)
	rec = func(prefix string, held int) {
		if len(prefix) > 0 {
			out = append(out, prefix)
		}
		if len(prefix) == maxLen {
			return
		}
		rec(prefix+"a", held+1)
		rec(prefix+"b", held+1)
		rec(prefix+"m", held+2)
		if held >= 1 {
			rec(prefix+"o", held-1)
			rec(prefix+"c", 0)
		}
	}
	rec("", 0)
	for i := 0; i < len(out); i++ {
		for j := i + 1; j < len(out); j++ {
			if len(out[j]) < len(out[i]) {
				out[i], out[j] = out[j], out[i]
			}
		}
	}
	return out
}

func c01Scenarios(thorough bool) (out []c01Params) {
	add := func(slots int, retry int, progs ...string) {
		out = append(out, c01Params{Slots: slots, Programs: progs, Retry: retry, Level: "list"})
	}
	addM := func(progs ...string) {
		out = append(out, c01Params{Slots: 5, Programs: progs, Retry: 3, Level: "manager"})
	}
	defer func() {
		// manager level (two size classes, chains): appended last, simplest first
		ml := 2
		if thorough {
			ml = 3
		}
		mp := c01MgrPrograms(ml)
		for _, a := range mp {
			for _, b := range mp {
				if len(a)+len(b) <= 2*ml-1 {
					addM(a, b)
				}
			}
		}
		// chains recycled through their shared-memory links against concurrent allocation of both kinds
		for _, pr := range [][2]string{{"mc", "mc"}, {"mc", "ma"}, {"ac", "bo"}, {"mc", "bb"}} {
			addM(pr[0], pr[1])
		}
		// three slots in the large class as well (a multi-slice allocation can take two large slices and then a small one)
		for _, progs := range [][]string{{"m"}, {"m", "m"}, {"mc", "a"}, {"m", "b"}, {"mo", "m"}, {"bm", "o"}} {
			out = append(out, c01Params{Slots: 6, Programs: progs, Retry: 3, Level: "manager3"})
		}
		// exact-fit memory (the last slot ends where the mapping ends): the tail moves, every slot gets allocated once,
		// chains that contain the last physical slot are recycled by their head - from either view
		for _, progs := range [][]string{{"aoaaac"}, {"", "aoaaac"}, {"aoaaaooo"}, {"aoaac", "ao"}, {"aoaoaaac"}} {
			out = append(out, c01Params{Slots: 4, Programs: progs, Retry: 3, Level: "manager-exact"})
		}
	}()
	if !thorough {
		p3 := c01Programs(3)
		for _, n := range []int{2, 3} {
			for _, a := range p3 {
				for _, b := range p3 {
					add(n, 3, a, b)
				}
			}
		}
		// three threads, one op each and the smallest mixes
		for _, n := range []int{3} {
			add(n, 3, "A", "A", "A")
			add(n, 3, "Ao", "A", "A")
			add(n, 3, "Ao", "Ao", "A")
		}
		// the smallest scenario that reaches the (known) ABA window: one allocating thread against a 6-op partner
		add(4, 3, "A", "AAoAnA")
		c01Big(&out)
		if os.Getenv("VERIF_NOSIG") != "" {
			out = out[len(out)-1:]
			add(4, 3, "AA", "AAoAnA")
			add(5, 3, "AA", "AAoAnAAn")
		}
		return out
	}
	p4 := c01Programs(4)
	p6 := c01Programs(6)
	for _, n := range []int{2, 3, 4} {
		for _, a := range p4 {
			for _, b := range p4 {
				add(n, 3, a, b)
			}
		}
	}
	for _, n := range []int{4, 5} {
		for _, b := range p6 {
			if len(b) >= 5 {
				add(n, 3, "A", b)
				add(n, 3, "Ao", b)
			}
		}
	}
	p2 := c01Programs(2)
	for _, n := range []int{3, 4} {
		for _, a := range p2 {
			for _, b := range p2 {
				for _, c := range p2 {
					add(n, 3, a, b, c)
				}
			}
		}
	}
	c01Big(&out)
	// the real retry bound (200) on the smallest list
	for _, a := range c01Programs(2) {
		for _, b := range c01Programs(2) {
			add(2, 200, a, b)
		}
	}
	return out
}

// c01Big: long free lists (behaviour that depends on how many buffers are free cannot show on 2-5 slots). One thread
// allocates and recycles one buffer and may be stalled once, anywhere (one preemption) - in particular between the tail
// CAS and the link store of its push; the other allocates most of the list, recycles it behind the stalled node and
// drains the list again, through the empty and the "last slot" exits. Every placement of the stall is explored.
func c01Big(out *[]c01Params) {
	for _, n := range []int{80, 300} {
		b := strings.Repeat("A", n-10) + strings.Repeat("o", n-14) + strings.Repeat("A", 14)
		*out = append(*out, c01Params{Slots: n, Programs: []string{"Ao", b}, Retry: 3, Level: "list", Bound: 1, Label: fmt.Sprintf("long-list-%d-stalled-recycler", n)})
		*out = append(*out, c01Params{Slots: n, Programs: []string{"AAon", b}, Retry: 3, Level: "list", Bound: 1, Label: fmt.Sprintf("long-list-%d-stalled-recycler-2", n)})
	}
}

func TestVerif_C01(t *testing.T) {
	w := newWorker(t, os.Getenv("VERIF_PROP"))
	if w.prop == "" {
		w.prop = "C01"
		w.out.Property = "C01"
	}
	defer w.finish()
	scs := c01Scenarios(w.thorough())
	for i, p := range scs {
		name := fmt.Sprintf("c01/%s-n%d-r%d-%s", p.Level, p.Slots, p.Retry, strings.Join(p.Programs, "_"))
		bound := -1
		if p.Bound > 0 {
			bound = p.Bound
		}
		if p.Label != "" {
			name = fmt.Sprintf("c01/%s-%s-bound%d", p.Level, p.Label, bound)
		}
		if i == 0 {
			w.determinism(name, vrt.Options{Bound: bound}, c01Body(p))
		}
		if !w.mine() {
			continue
		}
		o := vrt.Options{Bound: bound}
		if p.Label != "" {
			o.StepLimit = 2000000
		}
		w.explore(name, p, o, c01Body(p))
	}
}
