//go:build verif

package shmipc

import (
	"fmt"
	"testing"
	"unsafe"

	"github.com/anishathalye/porcupine"
	"github.com/cloudwego/shmipc-go/internal/vrt"
)

// C04 — the IO queue delivers every element exactly once, intact and in order.
//
// Real queue.put / queue.pop over one []byte seen through two structs (producer view created, consumer view
// mapped). All interleavings at single-memory-access granularity, state-pruned; every complete execution's
// call/return history is checked for linearizability against a bounded FIFO with porcupine; the occupancy
// invariant 0 <= tail-head <= cap is checked after every shared-memory operation.

type c04Params struct {
	Cap       int   `json:"cap"`
	Producers int   `json:"producers"`
	Puts      int   `json:"puts_per_producer"`
	Pops      int   `json:"consumer_pops"`
	Base      int64 `json:"cursor_base"`
	Bound     int   `json:"preemption_bound"`
}

type c04In struct {
	Put bool
	E   queueElement
}
type c04Out struct {
	Ok bool // put: enqueued (false = full); pop: got element (false = empty)
	E  queueElement
}

func c04Model(capacity int) porcupine.Model {
	return porcupine.Model{
		Init: func() interface{} { return []queueElement{} },
		Step: func(state, input, output interface{}) (bool, interface{}) {
			q := state.([]queueElement)
			in := input.(c04In)
			out := output.(c04Out)
			if in.Put {
				if out.Ok {
					if len(q) >= capacity {
						return false, q
					}
					nq := append(append([]queueElement{}, q...), in.E)
					return true, nq
				}
				return len(q) == capacity, q
			}
			if out.Ok {
				if len(q) == 0 || q[0] != out.E {
					return false, q
				}
				return true, append([]queueElement{}, q[1:]...)
			}
			return len(q) == 0, q
		},
		Equal: func(a, b interface{}) bool {
			x, y := a.([]queueElement), b.([]queueElement)
			if len(x) != len(y) {
				return false
			}
			for i := range x {
				if x[i] != y[i] {
					return false
				}
			}
			return true
		},
		DescribeOperation: func(input, output interface{}) string {
			return fmt.Sprintf("%+v -> %+v", input, output)
		},
	}
}

func c04Elem(producer, seq int) queueElement {
	e := queueElement{seqID: uint32(producer + 1), offsetInShmBuf: uint32(seq + 1)}
	e.status = e.seqID*2654435761 ^ e.offsetInShmBuf*40503
	return e
}

func c04Body(p c04Params) func() {
	return func() {
		mem := make([]byte, countQueueMemSize(uint32(p.Cap)))
		prod := createQueueFromBytes(mem, uint32(p.Cap))
		cons := mappingQueueFromBytes(mem)
		*prod.head = p.Base
		*prod.tail = p.Base
		var ops []porcupine.Operation
		var ev int64
		histHash := uint64(7)
		event := func(id int) int64 {
			ev++
			histHash = vrt.Mix(histHash, uint64(id))
			return ev
		}
		vrt.SetKey(func() uint64 {
			h := vrt.HashBytes(0, mem)
			if prod.Mutex.Held() {
				h = vrt.Mix(h, 1)
			}
			return vrt.Mix(h, histHash)
		})
		headP, tailP := unsafe.Pointer(prod.head), unsafe.Pointer(prod.tail)
		vrt.OnAtomic(func(op vrt.AtomicOp) {
			if op.Addr == headP || op.Addr == tailP {
				sz := *prod.tail - *prod.head
				if sz < 0 || sz > int64(p.Cap) {
					vrt.Failf("occupancy", "outstanding elements %d outside [0,%d] (head=%d tail=%d)", sz, p.Cap, *prod.head, *prod.tail)
				}
			}
		})
		var ths []*vrt.Thread
		for pi := 0; pi < p.Producers; pi++ {
			pi := pi
			ths = append(ths, vrt.GoProc(fmt.Sprintf("producer%d", pi), 1, func() {
				res := uint64(0)
				for k := 0; k < p.Puts; k++ {
					vrt.OpBoundary(vrt.Mix(uint64(100+pi*10+k), res))
					e := c04Elem(pi, k)
					call := event(pi*2 + 1)
					err := prod.put(e)
					ret := event(pi*2 + 2)
					if err != nil && err != ErrQueueFull {
						vrt.Failf("put-error", "put returned %v", err)
					}
					ops = append(ops, porcupine.Operation{ClientId: pi, Input: c04In{Put: true, E: e}, Call: call, Output: c04Out{Ok: err == nil}, Return: ret})
					res = res*3 + 1
					if err != nil {
						res++
						vrt.Count("put_full")
					}
				}
				vrt.OpBoundary(vrt.Mix(uint64(199+pi*10), res))
			}))
		}
		ths = append(ths, vrt.GoProc("consumer", 2, func() {
			res := uint64(0)
			for k := 0; k < p.Pops; k++ {
				vrt.OpBoundary(vrt.Mix(uint64(900+k), res))
				call := event(91)
				e, err := cons.pop()
				ret := event(92)
				ops = append(ops, porcupine.Operation{ClientId: p.Producers, Input: c04In{}, Call: call, Output: c04Out{Ok: err == nil, E: e}, Return: ret})
				if err == nil {
					res = vrt.Mix(res, uint64(e.seqID)<<40|uint64(e.offsetInShmBuf)<<8|uint64(e.status&0xff))
				} else {
					res = vrt.Mix(res, 5)
					vrt.Count("pop_empty")
				}
			}
			vrt.OpBoundary(vrt.Mix(999, res))
		}))
		vrt.WaitThreads(ths...)
		// sequential drain by the consumer: what is left must come out too
		for {
			call := event(91)
			e, err := cons.pop()
			ret := event(92)
			ops = append(ops, porcupine.Operation{ClientId: p.Producers, Input: c04In{}, Call: call, Output: c04Out{Ok: err == nil, E: e}, Return: ret})
			if err != nil {
				break
			}
			if len(ops) > 64 {
				vrt.Failf("drain", "drain does not terminate")
			}
		}
		if !porcupine.CheckOperations(c04Model(p.Cap), ops) {
			vrt.Failf("not-linearizable", "history is not linearizable w.r.t. a FIFO of capacity %d: %s", p.Cap, c04History(ops))
		}
		full, empty := 0, 0
		for _, o := range ops {
			if in := o.Input.(c04In); in.Put && !o.Output.(c04Out).Ok {
				full++
			} else if !in.Put && !o.Output.(c04Out).Ok {
				empty++
			}
		}
		vrt.Outcome(fmt.Sprintf("full=%d empty=%d", full, empty))
	}
}

func c04History(ops []porcupine.Operation) string {
	s := ""
	for _, o := range ops {
		in, out := o.Input.(c04In), o.Output.(c04Out)
		if in.Put {
			s += fmt.Sprintf("[c%d put(%d.%d)=%v @%d-%d]", o.ClientId, in.E.seqID, in.E.offsetInShmBuf, out.Ok, o.Call, o.Return)
		} else {
			s += fmt.Sprintf("[c%d pop=%v(%d.%d/%d) @%d-%d]", o.ClientId, out.Ok, out.E.seqID, out.E.offsetInShmBuf, out.E.status, o.Call, o.Return)
		}
	}
	return s
}

// cursor start values: 0, just below a multiple of cap (index wrap-around) and a value beyond 2^32
func c04Bases(cp int) []int64 {
	b := []int64{0}
	if cp > 1 {
		b = append(b, int64(cp-1))
	}
	return append(b, 1<<40+1)
}

func c04Scenarios(thorough bool) []c04Params {
	var out []c04Params
	if thorough {
		for _, cp := range []int{1, 2, 3} {
			for _, pr := range []int{1, 2, 3} {
				for _, k := range []int{1, 2, 3} {
					if pr*k > 4 && !(pr == 2 && k == 3 && cp <= 2) {
						continue // (sized so that the thorough tier completes within its budget: see evidence for what was run)
					}
					for _, b := range c04Bases(cp) {
						pops := pr * k
						if pops > 4 {
							pops = 4
						}
						out = append(out, c04Params{Cap: cp, Producers: pr, Puts: k, Pops: pops, Base: b, Bound: -1})
					}
				}
			}
		}
		for _, cp := range []int{5, 6, 7, 12} {
			for _, b := range c04Bases(cp) {
				out = append(out, c04Params{Cap: cp, Producers: 1, Puts: cp, Pops: 4, Base: b, Bound: -1})
			}
		}
		return out
	}
	// capacities that are not powers of two (index arithmetic), one producer filling the queue while the consumer drains
	for _, cp := range []int{3, 5, 6} {
		for _, b := range c04Bases(cp) {
			out = append(out, c04Params{Cap: cp, Producers: 1, Puts: cp, Pops: 4, Base: b, Bound: -1})
		}
	}
	out = append(out, c04Params{Cap: 3, Producers: 2, Puts: 1, Pops: 2, Base: 2, Bound: -1}, c04Params{Cap: 3, Producers: 2, Puts: 2, Pops: 3, Base: 0, Bound: -1})
	for _, cp := range []int{1, 2} {
		for _, pr := range []int{1, 2} {
			for _, k := range []int{1, 2} {
				for _, b := range c04Bases(cp) {
					pops := pr * k
					if pops > 3 {
						pops = 3
					}
					out = append(out, c04Params{Cap: cp, Producers: pr, Puts: k, Pops: pops, Base: b, Bound: -1})
				}
			}
		}
	}
	return out
}

func TestVerif_C04(t *testing.T) {
	w := newWorker(t, "C04")
	defer w.finish()
	scs := c04Scenarios(w.thorough())
	for i, p := range scs {
		name := fmt.Sprintf("c04/cap%d-p%dx%d-pops%d-base%d", p.Cap, p.Producers, p.Puts, p.Pops, p.Base)
		if i == 0 {
			w.determinism(name, vrt.Options{Bound: p.Bound}, c04Body(p))
		}
		if !w.mine() {
			continue
		}
		w.explore(name, p, vrt.Options{Bound: p.Bound}, c04Body(p))
	}
}
