//go:build verif

package shmipc

import (
	"bytes"
	"fmt"
	"net"
	"os"
	"sort"
	"strings"
	"testing"

	"github.com/cloudwego/shmipc-go/internal/vrt"
)

// C12 — handshake yields one shared memory and the lower version, or errors on both ends.
//
// The REAL newSession on both ends of a real connection (unix socketpair; a real TCP loopback connection for the
// tcp pairings) under the scheduler with virtual time; the handshake is NOT run in the quiet phase here.
// Success pairings: file mapping (protocol 2 initializer) and memfd mapping (protocol 3 exchange): both ends
// return nil, agree on the lower version, and share the very same memory (queue elements cross over in both
// directions through the two separate queue mappings, a message travels through the buffers both ways).
// Failure enumeration: the peer process stops at ANY scheduling point of the exchange — silently (its threads
// stop, the connection stays open: the survivor must give up at the initialization timeout) or with its
// descriptors closed — for both roles and both mapping types; every schedule within the deviation bound, the
// fault being one deviation. Oracle: the surviving newSession returns an error no later than the (virtual)
// initialization timeout, and afterwards nothing it created is left: no mapping, no descriptor, no /dev/shm file.

type c12Opts struct {
	name   string
	file   bool
	tcp    bool
	kill   int    // 0 none, 1 client dies, 2 server dies
	closed bool   // the dying peer's descriptors are closed (else it just falls silent)
}

const c12InitTimeout = 300 * ms

func tcpPair() (net.Conn, net.Conn) {
	ln, err := net.Listen("tcp", "127.0.0.1:0")
	if err != nil {
		panic("tcp listen: " + err.Error())
	}
	defer ln.Close()
	a, err := net.Dial("tcp", ln.Addr().String())
	if err != nil {
		panic("tcp dial: " + err.Error())
	}
	b, err := ln.Accept() // the connection is already established in the kernel: returns at once
	if err != nil {
		panic("tcp accept: " + err.Error())
	}
	trackConn(a)
	trackConn(b)
	return a, b
}

// c12Leftovers lists what is left that does not belong to the dead process (deadProc 0 = nobody died).
func c12Leftovers(p *ePair, deadProc int) string {
	out := p.tableEntries(deadProc)
	if deadProc == 0 {
		out = p.tableEntries(-1)
	}
	keep := map[int]bool{}
	for _, d := range p.router.d {
		keep[d.epollFd] = true
	}
	var fds []string
	for fd := range listFds() {
		if p.baseFds[fd] || keep[fd] {
			continue
		}
		if deadProc != 0 && vrt.FdOwner(fd) == deadProc {
			continue // the dead process's own descriptors vanish with it
		}
		tgt, err := os.Readlink(fmt.Sprintf("/proc/self/fd/%d", fd))
		if err != nil {
			continue
		}
		fds = append(fds, fmt.Sprintf("fd %d (process %d) -> %s", fd, vrt.FdOwner(fd), tgt))
	}
	sort.Strings(fds)
	out = append(out, fds...)
	return strings.Join(out, "; ")
}

func c12Body(o c12Opts) func() {
	return func() {
		p := pairBegin()
		po := pairOpts{File: o.file, InitTimeout: c12InitTimeout}
		var ca, cb net.Conn
		if o.tcp {
			ca, cb = tcpPair()
		} else {
			ca, cb = socketPairConns()
		}
		noteConnOwner(ca, 1)
		noteConnOwner(cb, 2)
		cfgC, cfgS := pairConfig(po, p.name), pairConfig(po, p.name)
		start := vrt.VNow()
		var cEnd, sEnd int64
		var cDone, sDone bool
		tc := vrt.GoProc("client-init", 1, func() {
			p.c, p.cerr = newSession(cfgC, ca, true)
			cEnd, cDone = vrt.VNow(), true
		})
		ts := vrt.GoProc("server-init", 2, func() {
			p.s, p.serr = newSession(cfgS, cb, false)
			sEnd, sDone = vrt.VNow(), true
		})
		var tk *vrt.Thread
		if o.kill != 0 {
			tk = vrt.GoLazy("fault", 0, func() {
				// the peer process stops here (this thread can be scheduled at any point of the exchange)
				vrt.KillProc(o.kill)
				if o.closed {
					// ... and the kernel closes what it had open: its end of the connection, in whatever form
					// (original conn, duplicated descriptor) it exists at this moment
					victim := ca
					if o.kill == 2 {
						victim = cb
					}
					victim.Close()
					closeProcFds(p, o.kill)
				}
			})
		}
		survivorT, survivorDone, survivorEnd, survivorErr := tc, &cDone, &cEnd, &p.cerr
		if o.kill == 1 {
			survivorT, survivorDone, survivorEnd, survivorErr = ts, &sDone, &sEnd, &p.serr
		}
		switch o.kill {
		case 0:
			vrt.WaitThreads(tc, ts)
		default:
			vrt.WaitThreads(survivorT, tk)
		}
		vrt.WaitIdle(vrt.Second)
		if o.kill == 0 {
			c12Success(p, o, ca, cb)
			return
		}
		_ = survivorDone
		// the dead peer may have completed its own newSession before it died: then the survivor may legitimately
		// have succeeded too (the exchange was over); what must never happen is a survivor stuck or late.
		if *survivorEnd-start > int64(c12InitTimeout)+int64(50*ms) {
			vrt.Failf("late", "the surviving end returned after %d ms, initialization timeout is %d ms", (*survivorEnd-start)/1e6, int64(c12InitTimeout)/1e6)
		}
		surv := p.c
		if o.kill == 1 {
			surv = p.s
		}
		if *survivorErr == nil {
			// established although the peer died at some point: the session must notice (closed peer) or at least
			// be closable, and then leave nothing behind
			vrt.Count("survivor_established")
			t := vrt.GoProc("close-survivor", 3-o.kill, func() { surv.Close() })
			vrt.WaitThreads(t)
			vrt.WaitIdle(2 * vrt.Second)
		} else {
			vrt.Count("survivor_error")
		}
		// what the dead process held vanishes with it; everything else the survivor must have released. In file mode
		// the shared-memory files are the client's: a surviving client removes them, a dead client cannot.
		// known finding D17: a failed newSession never closes the descriptor it duplicated from the connection (only
		// the garbage collector's finalizer does, some time later). It is recognised by what it is - the tracked
		// duplicate of the survivor, still open - closed here on the finalizer's behalf, and reported on its own.
		dupLeft := 0
		if *survivorErr != nil {
			for _, f := range vrt.TrackedFiles(3 - o.kill) {
				if err := f.Close(); err == nil {
					dupLeft++
				}
			}
		}
		if left := c12Leftovers(p, o.kill); left != "" {
			vrt.Failf("leftover", "peer (%s) died during the handshake, the survivor returned %v; left behind: %s", map[int]string{1: "client", 2: "server"}[o.kill], *survivorErr, left)
		}
		if dupLeft > 0 {
			vrt.Failf("known:handshake-failure-leaks-conn-dup", "peer (%s) died during the handshake, the survivor's newSession returned %v and left the descriptor it duplicated from the connection open", map[int]string{1: "client", 2: "server"}[o.kill], *survivorErr)
		}
		if o.file && o.kill == 2 {
			for _, f := range []string{"/dev/shm/" + p.name + "_queue", "/dev/shm/" + p.name + bufferPathSuffix} {
				if _, err := os.Stat(f); err == nil {
					vrt.Failf("leftover", "the server died during the handshake, the client returned %v and left %s behind", *survivorErr, f)
				}
			}
		}
		vrt.Outcome(fmt.Sprintf("survivor-err=%v t=%dms", *survivorErr != nil, (*survivorEnd-start)/1e6))
	}
}

// closeProcFds closes the descriptors a dying process holds on the connection.
func closeProcFds(p *ePair, proc int) {
	for _, f := range vrt.TrackedFiles(proc) {
		f.Close()
	}
}

func c12Success(p *ePair, o c12Opts, ca, cb net.Conn) {
	if o.tcp && !o.file {
		// memfd needs descriptor passing: must be refused on both ends, at once, leaving nothing
		if p.cerr == nil || p.serr == nil {
			vrt.Failf("tcp-memfd-accepted", "memfd mapping over tcp: client err %v, server err %v", p.cerr, p.serr)
		}
		ca.Close() // a pairing refused before anything was exchanged leaves the connection to its owner, the caller
		cb.Close()
		if left := c12Leftovers(p, 0); left != "" {
			vrt.Failf("leftover", "refused pairing left behind: %s", left)
		}
		vrt.Outcome("refused")
		return
	}
	if p.cerr != nil || p.serr != nil {
		vrt.Failf("handshake-failed", "client: %v, server: %v", p.cerr, p.serr)
	}
	want := uint8(3)
	if o.file {
		want = 2 // a file-mapping client speaks the protocol 2 initializer
	}
	if p.c.communicationVersion != want || p.s.communicationVersion != want {
		vrt.Failf("version", "client speaks %d, server %d, lower common version is %d", p.c.communicationVersion, p.s.communicationVersion, want)
	}
	// one memory: queue elements cross over through the two queue mappings, in both directions
	if &p.c.queueManager.mem[0] == &p.s.queueManager.mem[0] {
		vrt.Failf("harness", "client and server share one queue mapping object")
	}
	e := queueElement{seqID: 41, offsetInShmBuf: 42, status: 43}
	p.c.queueManager.sendQueue.put(e)
	if got, err := p.s.queueManager.recvQueue.pop(); err != nil || got != e {
		vrt.Failf("queues-not-shared", "element put on the client's send queue: server's receive queue returned %+v, %v", got, err)
	}
	p.s.queueManager.sendQueue.put(e)
	if got, err := p.c.queueManager.recvQueue.pop(); err != nil || got != e {
		vrt.Failf("queues-not-shared", "element put on the server's send queue: client's receive queue returned %+v, %v", got, err)
	}
	if len(p.c.bufferManager.mem) != len(p.s.bufferManager.mem) {
		vrt.Failf("buffers-not-shared", "buffer mappings differ in size")
	}
	// a message through the buffers, both ways
	var got, back []byte
	tc := vrt.GoProc("ping", 1, func() {
		st, err := p.c.OpenStream()
		if err != nil {
			vrt.Failf("ping", "open: %v", err)
		}
		c09Flush(st, 5, 0, 40)
		st.SetReadDeadline(vrt.Now().Add(vrt.Second))
		back, _ = st.BufferReader().ReadBytes(7)
		back = append([]byte{}, back...)
		st.Close()
	})
	ts := vrt.GoProc("pong", 2, func() {
		st, err := p.s.AcceptStream()
		if err != nil {
			vrt.Failf("ping", "accept: %v", err)
		}
		st.SetReadDeadline(vrt.Now().Add(vrt.Second))
		got, _ = st.BufferReader().ReadBytes(40)
		got = append([]byte{}, got...)
		c09Flush(st, 6, 0, 7)
		st.Close()
	})
	vrt.WaitThreads(tc, ts)
	if !bytes.Equal(got, patBytes(5, 0, 40)) || !bytes.Equal(back, patBytes(6, 0, 7)) {
		vrt.Failf("buffers-not-shared", "ping-pong through shared memory: server got %x, client got %x", got, back)
	}
	if p.c.stats.fallbackWriteCount+p.s.stats.fallbackWriteCount != 0 {
		vrt.Failf("buffers-not-shared", "the ping-pong went over the socket, not through shared memory")
	}
	// and everything is released by closing both ends
	t1 := vrt.GoProc("close-c", 1, func() { p.c.Close() })
	t2 := vrt.GoProc("close-s", 2, func() { p.s.Close() })
	vrt.WaitThreads(t1, t2)
	vrt.WaitIdle(2 * vrt.Second)
	if left := c12Leftovers(p, 0); left != "" {
		vrt.Failf("leftover", "after closing both ends: %s", left)
	}
	vrt.Outcome(fmt.Sprintf("established v%d", want))
}

// c12ScriptedBody: the real server against a scripted raw client of "another implementation": protocol 3 version
// exchange followed by metadata BY FILE PATH (a pairing the Go client never produces: it uses the protocol 2
// initializer for file mappings). The script is cut after k bytes — k is an environment choice: every message
// boundary in quick, every byte in thorough — and the peer then falls silent or closes. Uncut, the handshake must
// succeed with version 3.
func c12ScriptedBody(everyByte, closing, badBuffer bool) func() {
	return func() {
		p := pairBegin()
		ca, cb := socketPairConns()
		noteConnOwner(ca, 3)
		noteConnOwner(cb, 2)
		// the scripted client's shared memory: real files made with the library's own functions in its own process table
		qpath, bpath := "/dev/shm/"+p.name+"_queue", "/dev/shm/"+p.name+bufferPathSuffix
		var script []byte
		var bounds []int
		setup := vrt.GoProc("scripted-setup", 3, func() {
			cfg := pairConfig(pairOpts{File: true}, p.name)
			qm, err := createQueueManager(qpath, cfg.QueueCap)
			if err != nil {
				vrt.Failf("harness", "createQueueManager: %v", err)
			}
			syscallMunmap(qm.mem) // the scripted client only needs the files: whatever is mapped afterwards is the server's
			bm, err := getGlobalBufferManager(bpath, cfg.ShareMemoryBufferCap, true, cfg.BufferSliceSizes)
			if err != nil {
				vrt.Failf("harness", "getGlobalBufferManager: %v", err)
			}
			syscallMunmap(bm.mem)
			delete(bufferManagers.bms, bpath)
			if badBuffer {
				// the buffer file vanishes between the client's announcement and the server's mapping of it (the
				// client gave up and cleaned up): the server maps the queue, then fails on the buffer
				os.Remove(bpath)
			}
			h := header(make([]byte, headerSize))
			h.encode(headerSize, 3, typeExchangeProtoVersion)
			script = append(script, h...)
			bounds = append(bounds, len(script))
			meta := make([]byte, headerSize+2+len(qpath)+2+len(bpath))
			off := headerSize
			meta[off], meta[off+1] = byte(len(qpath)>>8), byte(len(qpath))
			copy(meta[off+2:], qpath)
			off += 2 + len(qpath)
			meta[off], meta[off+1] = byte(len(bpath)>>8), byte(len(bpath))
			copy(meta[off+2:], bpath)
			header(meta).encode(uint32(len(meta)), 3, typeShareMemoryByFilePath)
			script = append(script, meta...)
			bounds = append(bounds, len(script)-len(meta)+headerSize, len(script))
		})
		vrt.WaitThreads(setup)
		cfgS := pairConfig(pairOpts{InitTimeout: c12InitTimeout}, p.name+"_srv")
		start := vrt.VNow()
		var sEnd int64
		ts := vrt.GoProc("server-init", 2, func() {
			p.s, p.serr = newSession(cfgS, cb, false)
			sEnd = vrt.VNow()
		})
		cut := -1
		tp := vrt.GoProc("scripted-client", 3, func() {
			f, _ := ca.(interface{ File() (*os.File, error) }).File()
			defer f.Close()
			fd := int(f.Fd())
			// where does the peer stop? default: nowhere (plays the whole script)
			var cuts []int
			if everyByte {
				for k := 0; k < len(script); k++ {
					cuts = append(cuts, k)
				}
			} else {
				cuts = append([]int{0}, bounds[:len(bounds)-1]...)
			}
			if c := vrt.Choose(len(cuts)+1, 1); c > 0 {
				cut = cuts[c-1]
			}
			n := len(script)
			if cut >= 0 {
				n = cut
			}
			sysWriteAll(fd, script[:n])
			if cut >= 0 && closing {
				ca.Close()
			}
		})
		vrt.WaitThreads(ts, tp)
		vrt.WaitIdle(vrt.Second)
		if sEnd-start > int64(c12InitTimeout)+int64(50*ms) {
			vrt.Failf("late", "the server's newSession returned after %d ms (timeout %d ms)", (sEnd-start)/1e6, int64(c12InitTimeout)/1e6)
		}
		if cut < 0 && badBuffer {
			if p.serr == nil {
				vrt.Failf("established-without-buffer", "the buffer file does not exist and the server's newSession succeeded")
			}
		} else if cut < 0 {
			if p.serr != nil {
				vrt.Failf("handshake-failed", "complete protocol-3 / file-path script: server returned %v", p.serr)
			}
			if p.s.communicationVersion != 3 {
				vrt.Failf("version", "server speaks version %d with a protocol-3 client", p.s.communicationVersion)
			}
			// "succeeds on both ends": the client of this exchange waits for the version reply and then for the server's
			// acknowledgement of the shared memory - both must have been sent
			if f, err := ca.(interface{ File() (*os.File, error) }).File(); err == nil {
				got := sysReadAvail(int(f.Fd()))
				f.Close()
				var types []eventType
				for len(got) >= headerSize {
					h := header(got[:headerSize])
					types = append(types, h.MsgType())
					l := int(h.Length())
					if l < headerSize || l > len(got) {
						break
					}
					got = got[l:]
				}
				if len(types) < 2 || types[0] != typeExchangeProtoVersion || types[1] != typeAckShareMemory {
					vrt.Failf("client-never-acknowledged", "the server's newSession succeeded; the protocol-3 client received %v - it waits for the version reply and for typeAckShareMemory and would fail at its initialization timeout", types)
				}
			}
			// same memory: what the scripted client's process wrote into its queue mapping's file is what the server maps
			tcl := vrt.GoProc("close-s", 2, func() { p.s.Close() })
			vrt.WaitThreads(tcl)
			vrt.WaitIdle(2 * vrt.Second)
		} else if p.serr == nil {
			vrt.Failf("established-on-truncated-script", "the client stopped after %d of %d bytes and the server's newSession succeeded", cut, len(script))
		}
		dup := 0
		if p.serr != nil {
			for _, f := range vrt.TrackedFiles(2) {
				if f.Close() == nil {
					dup++
				}
			}
		}
		if left := c12Leftovers(p, 3); left != "" {
			vrt.Failf("leftover", "scripted client stopped at byte %d (closing=%v), server returned %v; left behind: %s", cut, closing, p.serr, left)
		}
		if m := mappedPaths(p.name); len(m) > 0 {
			vrt.Failf("leftover", "scripted client stopped at byte %d (closing=%v, buffer file missing=%v), server returned %v; still mapped: %v", cut, closing, badBuffer, p.serr, m)
		}
		if dup > 0 {
			vrt.Failf("known:handshake-failure-leaks-conn-dup", "scripted client stopped at byte %d, the server's newSession returned %v and left the descriptor it duplicated from the connection open", cut, p.serr)
		}
		vrt.Outcome(fmt.Sprintf("cut=%d err=%v", cut, p.serr != nil))
	}
}

func sysWriteAll(fd int, b []byte) {
	for len(b) > 0 {
		n, err := sysWrite(fd, b)
		if err != nil {
			return
		}
		b = b[n:]
	}
}

func TestVerif_C12(t *testing.T) {
	mk := func(o c12Opts, b, bt int) bScenario {
		return bScenario{Name: o.name, Bound: b, BoundT: bt, Body: c12Body(o), Live: true}
	}
	scs := []bScenario{
		mk(c12Opts{name: "ok-unix-memfd"}, 1, 2),
		mk(c12Opts{name: "ok-unix-file", file: true}, 1, 2),
		mk(c12Opts{name: "ok-tcp-file", file: true, tcp: true}, 0, 1),
		mk(c12Opts{name: "refused-tcp-memfd", tcp: true}, 0, 1),
	}
	for _, file := range []bool{false, true} {
		for _, kill := range []int{1, 2} {
			for _, closed := range []bool{false, true} {
				n := fmt.Sprintf("%s-%s-dies-%s", map[bool]string{false: "memfd", true: "file"}[file], map[int]string{1: "client", 2: "server"}[kill], map[bool]string{false: "silent", true: "closing"}[closed])
				scs = append(scs, mk(c12Opts{name: n, file: file, kill: kill, closed: closed}, 1, 2))
			}
		}
	}
	thorough := os.Getenv("VERIF_TIER") == "thorough"
	scs = append(scs,
		bScenario{Name: "scripted-v3-filepath-client-silent", Bound: 1, BoundT: 1, Body: c12ScriptedBody(thorough, false, false), Live: true},
		bScenario{Name: "scripted-v3-filepath-client-closing", Bound: 1, BoundT: 1, Body: c12ScriptedBody(thorough, true, false), Live: true},
		bScenario{Name: "scripted-v3-filepath-buffer-file-gone", Bound: 1, BoundT: 1, Body: c12ScriptedBody(false, false, true), Live: true})
	runBScenarios(t, "C12", scs)
}
