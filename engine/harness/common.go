//go:build verif

package shmipc

import (
	"encoding/json"
	"fmt"
	"os"
	"strconv"
	"strings"
	"testing"
	"time"

	"github.com/cloudwego/shmipc-go/internal/vrt"
)

// ---- worker protocol between ./check (python driver) and the harness test binary --------------------
//
//	VERIF_TIER   quick | thorough
//	VERIF_SHARD  i/n   this worker takes scenarios with index % n == i
//	VERIF_OUT    path of the JSON result this worker writes
//	VERIF_REPLAY path of a replay file (run exactly that execution)
//	VERIF_BUDGET_S  wall-clock budget in seconds for this worker (internal deadline => exhaustive:false)

type scenarioResult struct {
	Name   string      `json:"name"`
	Params interface{} `json:"params,omitempty"`
	*vrt.Result
}

type workerOut struct {
	Property  string                 `json:"property"`
	Tier      string                 `json:"tier"`
	Shard     string                 `json:"shard"`
	Scenarios []*scenarioResult      `json:"scenarios"`
	Extra     map[string]interface{} `json:"extra,omitempty"`
	Samples   []interface{}          `json:"samples,omitempty"`
	WallS     float64                `json:"wall_s"`
	Determinism string               `json:"determinism,omitempty"`
}

type replayFile struct {
	Property string          `json:"property"`
	Scenario string          `json:"scenario"`
	Params   json.RawMessage `json:"params,omitempty"`
	Choices  []int           `json:"choices"`
	Sig      string          `json:"sig,omitempty"`
	Msg      string          `json:"msg,omitempty"`
	Kind     string          `json:"kind,omitempty"`
}

type worker struct {
	t        *testing.T
	prop     string
	tier     string
	shardI   int
	shardN   int
	out      *workerOut
	start    time.Time
	deadline int64
	idx      int
	replay   *replayFile
}

func newWorker(t *testing.T, prop string) *worker {
	w := &worker{t: t, prop: prop, tier: os.Getenv("VERIF_TIER"), shardN: 1, start: time.Now()}
	if w.tier == "" {
		w.tier = "quick"
	}
	if s := os.Getenv("VERIF_SHARD"); s != "" {
		p := strings.Split(s, "/")
		w.shardI, _ = strconv.Atoi(p[0])
		w.shardN, _ = strconv.Atoi(p[1])
	}
	if s := os.Getenv("VERIF_BUDGET_S"); s != "" {
		sec, _ := strconv.ParseFloat(s, 64)
		w.deadline = time.Now().Add(time.Duration(sec * float64(time.Second))).UnixNano()
	}
	if p := os.Getenv("VERIF_REPLAY"); p != "" {
		b, err := os.ReadFile(p)
		if err != nil {
			t.Fatalf("replay file: %v", err)
		}
		w.replay = &replayFile{}
		if err := json.Unmarshal(b, w.replay); err != nil {
			t.Fatalf("replay file: %v", err)
		}
	}
	w.out = &workerOut{Property: prop, Tier: w.tier, Shard: os.Getenv("VERIF_SHARD"), Extra: map[string]interface{}{}}
	return w
}

func (w *worker) thorough() bool { return w.tier == "thorough" }

// mine decides whether the next scenario belongs to this shard (round robin in enumeration order).
func (w *worker) mine() bool {
	i := w.idx
	w.idx++
	return i%w.shardN == w.shardI
}

func (w *worker) expired() bool {
	return w.deadline > 0 && time.Now().UnixNano() > w.deadline
}

// explore runs one scenario under the explorer (or replays it) and records the result.
func (w *worker) explore(name string, params interface{}, opts vrt.Options, body func()) *vrt.Result {
	if w.replay != nil {
		// a recorded schedule is replayed whatever bound the current tier gives the scenario
		if stripBound(w.replay.Scenario) != stripBound(name) {
			return nil
		}
		w.doReplay(name, opts, body)
		return nil
	}
	if opts.DeadlineNs == 0 {
		opts.DeadlineNs = w.deadline
	}
	if w.expired() {
		r := &vrt.Result{Name: name, Exhaustive: false, CapHit: "deadline-before-start", Outcomes: map[string]int64{}, Counts: map[string]int64{}}
		w.out.Scenarios = append(w.out.Scenarios, &scenarioResult{Name: name, Params: params, Result: r})
		return r
	}
	if opts.KeepGoing == nil {
		all := os.Getenv("VERIF_NOSIG") != "" // diagnostic mode: collect one witness per distinct oracle
		opts.KeepGoing = func(f *vrt.Failure) bool {
			return f.Kind == "oracle" && (all || strings.HasPrefix(f.Sig, "known:"))
		}
	}
	r := vrt.Explore(name, opts, body)
	w.out.Scenarios = append(w.out.Scenarios, &scenarioResult{Name: name, Params: params, Result: r})
	return r
}

func (w *worker) doReplay(name string, opts vrt.Options, body func()) {
	var first *vrt.Exec
	for i := 0; i < 5; i++ {
		if i == 0 && os.Getenv("VERIF_TRACE") != "" {
			lvl := os.Getenv("VERIF_TRACE")
			vrt.Trace = func(l string) {
				if lvl == "2" || strings.HasPrefix(l, "step") {
					fmt.Println("TRACE", l)
				}
			}
		} else {
			vrt.Trace = nil
		}
		x := vrt.RunOnce(opts, w.replay.Choices, body)
		if first == nil {
			first = x
		}
		sig, msg := "", ""
		if x.Fail != nil {
			sig, msg = x.Fail.Sig, x.Fail.Msg
		}
		fmt.Printf("REPLAY run=%d scenario=%s steps=%d fail_sig=%q msg=%q\n", i, name, len(x.Steps), sig, msg)
		if x.Fail != nil && x.Fail.Stack != "" && i == 0 {
			fmt.Println(x.Fail.Stack)
		}
	}
	r := &vrt.Result{Name: name, Execs: 5, Outcomes: map[string]int64{}, Counts: map[string]int64{}}
	if first.Fail != nil {
		r.Failures = append(r.Failures, first.Fail)
	}
	w.out.Scenarios = append(w.out.Scenarios, &scenarioResult{Name: name, Result: r})
}

// determinism replays one schedule twice and compares the observation (choice vector, state keys, outcome).
func (w *worker) determinism(name string, opts vrt.Options, body func()) {
	if w.replay != nil || w.shardI != 0 {
		return
	}
	o := opts
	o.KeepGoing = nil
	a := vrt.RunOnce(o, nil, body)
	pref := make([]int, len(a.Steps))
	for i, s := range a.Steps {
		pref[i] = s.C
	}
	b := vrt.RunOnce(o, pref, body)
	ok := len(a.Steps) == len(b.Steps) && (a.Fail == nil) == (b.Fail == nil)
	if ok {
		for i := range a.Steps {
			if a.Steps[i].N != b.Steps[i].N || a.Steps[i].C != b.Steps[i].C || a.Steps[i].Key != b.Steps[i].Key {
				ok = false
				break
			}
		}
	}
	if !ok {
		w.out.Determinism = "FAILED:" + name
		fmt.Printf("HARNESS-BROKEN determinism self-check failed for %s (steps %d vs %d)\n", name, len(a.Steps), len(b.Steps))
	} else if w.out.Determinism == "" {
		w.out.Determinism = "ok"
	}
}

func (w *worker) finish() {
	w.out.WallS = time.Since(w.start).Seconds()
	path := os.Getenv("VERIF_OUT")
	if path == "" {
		b, _ := json.MarshalIndent(w.out, "", " ")
		fmt.Println(string(b))
		return
	}
	b, _ := json.Marshal(w.out)
	if err := os.WriteFile(path, b, 0o644); err != nil {
		w.t.Fatalf("write result: %v", err)
	}
}

func envInt(name string, def int) int {
	if s := os.Getenv(name); s != "" {
		if v, err := strconv.Atoi(s); err == nil {
			return v
		}
	}
	return def
}

// nowNs is the real wall clock (internal deadlines only, never an oracle).
func nowNs() int64 { return time.Now().UnixNano() }

func stripBound(n string) string {
	if i := strings.LastIndex(n, "-bound"); i >= 0 {
		return n[:i]
	}
	return n
}
