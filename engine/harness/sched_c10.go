//go:build verif

package shmipc

import (
	"fmt"
	"testing"
	"unsafe"

	"github.com/cloudwego/shmipc-go/internal/vrt"
)

// C10 — stream close is final, propagates to the peer and is reported exactly once.
//
// Real pair under the scheduler; every schedule within the deviation bound. Scenarios: close from a plain
// goroutine, from both ends at once, twice / concurrently on one end, with the receiving end in callback mode,
// from inside OnData, from another goroutine while callbacks are installed. Oracles: the state word only moves
// opened -> half-closed -> closed (checked at every atomic operation on it); after a local Close: Flush with
// data fails with ErrStreamClosed, reads fail with a closed-stream error, the stream is no longer counted as
// active; the peer, after draining what was flushed, reads ErrEndOfStream and its Flush fails; over its whole
// life each end gets exactly one of OnLocalClose / OnRemoteClose.

type c10Opts struct {
	name          string
	serverCB      bool // server stream in callback mode
	closeInCB     bool // server's OnData closes the stream
	waitRemote    bool // ... after it has waited (inside OnData) until the peer's close was handled
	clientCloses  bool
	serverCloses  bool // server closes from a plain goroutine as soon as it has the stream (concurrently with the client)
	doubleClose   bool // a second client thread closes the same stream concurrently
	clientReadEOF bool // the client waits for the end of stream (needs the server to close)
}

func isClosedErr(err error) bool { return err == ErrStreamClosed || err == ErrEndOfStream }

func c10WatchState(streams func() []*Stream) {
	vrt.OnAtomic(func(op vrt.AtomicOp) {
		if op.Kind != "cas" && op.Kind != "store" {
			return
		}
		for _, st := range streams() {
			if st != nil && op.Addr == unsafe.Pointer(&st.state) && (op.Kind == "store" || op.Ok) {
				// rank: opened 0 < half-closed (by the peer, or locally while a callback runs) 1 < closed 2
				rank := func(v uint64) int {
					switch streamState(v) {
					case streamOpened:
						return 0
					case streamClosed:
						return 2
					}
					return 1
				}
				from, to := op.Old, op.New
				ok := rank(to) > rank(from) || from == to
				if !ok {
					vrt.Failf("state-backwards", "stream %d state moved %d -> %d", st.id, from, to)
				}
			}
		}
	})
}

// afterLocalClose: what every end must observe once its own Close has returned.
func c10AfterLocalClose(who string, sess *Session, st *Stream) {
	st.BufferWriter().WriteBytes([]byte("late"))
	if err := st.Flush(false); err != ErrStreamClosed {
		vrt.Failf("flush-after-close", "%s: Flush with data after Close returned %v", who, err)
	}
	if _, err := st.BufferReader().ReadBytes(1); !isClosedErr(err) {
		vrt.Failf("read-after-close", "%s: ReadBytes after Close returned %v", who, err)
	}
	if err := st.Close(); err != nil {
		vrt.Failf("reclose", "%s: second Close returned %v", who, err)
	}
	if st.IsOpen() {
		vrt.Failf("still-open", "%s: stream open after Close", who)
	}
	if sess.getStreamById(st.id) == st {
		vrt.Failf("still-active", "%s: closed stream %d is still counted as active", who, st.id)
	}
}

func c10Body(o c10Opts) func() {
	return func() {
		var cst, sst *Stream
		serverCalledClose := false
		var rc *recordingCallbacks
		accepted := 0
		lcb := &listenCB{}
		lcb.onNew = func(s *Stream) {
			accepted++
			if accepted > 1 {
				vrt.Count("stream_accepted_again")
				return
			}
			rc = &recordingCallbacks{st: s}
			if o.closeInCB {
				rc.onData = func(r BufferReader) {
					b, _ := r.ReadBytes(r.Len())
					rc.got = append(rc.got, b...)
					r.ReleasePreviousRead()
					if o.waitRemote {
						vrt.Point("wait-peer-close", func() bool { return !s.IsOpen() })
					}
					s.Close()
					serverCalledClose = true
					// "after a local Close every later operation fails": also while the close is still deferred to the
					// end of this very callback
					s.BufferWriter().WriteBytes([]byte("late"))
					if err := s.Flush(false); err != ErrStreamClosed {
						vrt.Failf("write-after-close", "Flush after Close (called inside OnData, which is still running) returned %v", err)
					}
				}
			}
			s.SetCallbacks(rc)
			sst = s // published to the other harness threads only once the callbacks are installed
		}
		po := pairOpts{}
		if o.serverCB {
			po.ListenCB = lcb
		}
		p := newEPair(po)
		c10WatchState(func() []*Stream { return []*Stream{cst, sst} })
		data := patBytes(1, 0, 5)
		var ths []*vrt.Thread
		serverKnowsRemote := false
		flushedOK, close2Done := false, false
		ths = append(ths, vrt.GoProc("client", 1, func() {
			var err error
			cst, err = p.c.OpenStream()
			if err != nil {
				vrt.Failf("harness", "open: %v", err)
			}
			cst.BufferWriter().WriteBytes(data)
			if err := cst.Flush(false); err != nil {
				vrt.Failf("harness", "flush: %v", err)
			}
			flushedOK = true
			if o.clientCloses {
				if err := cst.Close(); err != nil {
					vrt.Failf("close-error", "client Close: %v", err)
				}
				if o.doubleClose {
					// the other Close may still be cleaning up: "no longer active" is checked once both have returned
					vrt.Point("wait-close2", func() bool { return close2Done })
				}
				c10AfterLocalClose("client", p.c, cst)
			}
			if o.clientReadEOF {
				cst.SetReadDeadline(vrt.Now().Add(5 * vrt.Second))
				_, err := cst.BufferReader().ReadBytes(1)
				if err == ErrTimeout {
					vrt.Failf("peer-never-told", "the server closed its end; 5 s (virtual) later the client still has not been told (read timed out)")
				}
				if err != ErrEndOfStream {
					vrt.Failf("peer-eof", "client read after the server's close returned %v", err)
				}
				cst.BufferWriter().WriteBytes([]byte("x"))
				if err := cst.Flush(false); err != ErrStreamClosed {
					vrt.Failf("peer-can-send", "client Flush after the server's close returned %v", err)
				}
				cst.Close()
			}
		}))
		if o.doubleClose {
			ths = append(ths, vrt.GoProc("client2", 1, func() {
				// Close repeated concurrently on one end (after the data was flushed: closing a stream while another
				// goroutine is still writing to it is a usage error, not a C10 scenario)
				vrt.Point("wait-flushed", func() bool { return flushedOK })
				if err := cst.Close(); err != nil {
					vrt.Failf("close-error", "client2 Close: %v", err)
				}
				close2Done = true
			}))
		}
		if !o.serverCB {
			ths = append(ths, vrt.GoProc("server", 2, func() {
				var err error
				sst, err = p.s.AcceptStream()
				if err != nil {
					vrt.Failf("harness", "accept: %v", err)
				}
				if o.serverCloses {
					if err := sst.Close(); err != nil {
						vrt.Failf("close-error", "server Close: %v", err)
					}
					c10AfterLocalClose("server", p.s, sst)
					return
				}
				got, err := sst.BufferReader().ReadBytes(len(data))
				if err != nil || string(got) != string(data) {
					vrt.Failf("drain", "server could not drain what was flushed before the close: %x, %v", got, err)
				}
				if o.clientCloses {
					if _, err := sst.BufferReader().ReadBytes(1); err != ErrEndOfStream {
						vrt.Failf("peer-eof", "server read after draining returned %v, want ErrEndOfStream", err)
					}
					sst.BufferWriter().WriteBytes([]byte("x"))
					if err := sst.Flush(false); err != ErrStreamClosed {
						vrt.Failf("peer-can-send", "server Flush after the client's close returned %v", err)
					}
					serverKnowsRemote = true
				}
				sst.Close()
				c10AfterLocalClose("server", p.s, sst)
			}))
		} else if o.serverCloses {
			ths = append(ths, vrt.GoProc("server-closer", 2, func() {
				vrt.Point("wait-stream", func() bool { return sst != nil })
				vrt.AnyMoment()
				if err := sst.Close(); err != nil {
					vrt.Failf("close-error", "server Close: %v", err)
				}
				serverCalledClose = true
			}))
		}
		vrt.WaitThreads(ths...)
		vrt.WaitIdle(vrt.Second)
		_ = serverKnowsRemote
		if o.serverCB && rc != nil {
			// a local Close is final: once it was called (from inside OnData or from another goroutine) and the system is
			// quiescent, the stream is closed and no longer active - without anybody calling Close again
			if serverCalledClose {
				if st := sst.getStreamState(); st != uint32(streamClosed) {
					vrt.Failf("close-not-final", "the server called Close on its stream; at quiescence its state is %d (not closed) and active=%v", st, p.s.getStreamById(sst.id) == sst)
				}
			}
			// whatever happened, the server end is closed now or gets closed here; then exactly one close callback
			if sst.IsOpen() || sst.getStreamState() == uint32(streamHalfClosed) {
				t := vrt.GoProc("server-final-close", 2, func() { sst.Close() })
				vrt.WaitThreads(t)
				vrt.WaitIdle(vrt.Second)
			}
			if rc.local+rc.remote != 1 {
				vrt.Failf("close-callbacks", "server end got OnLocalClose x%d and OnRemoteClose x%d over its life (exactly one expected); state=%d", rc.local, rc.remote, sst.getStreamState())
			}
			if sst.getStreamState() != uint32(streamClosed) {
				vrt.Failf("not-closed", "server stream state %d after Close", sst.getStreamState())
			}
			if p.s.getStreamById(sst.id) == sst {
				vrt.Failf("still-active", "server: closed stream is still counted as active")
			}
		}
		out := fmt.Sprintf("cstate=%d", cst.getStreamState())
		if sst != nil {
			out += fmt.Sprintf(" sstate=%d", sst.getStreamState())
		}
		if rc != nil {
			out += fmt.Sprintf(" local=%d remote=%d got=%d", rc.local, rc.remote, len(rc.got))
		}
		vrt.Outcome(out)
	}
}

// c10FullQueueBody: Close at the moment the send queue is full (the peer's event loop is not running): the close
// notification cannot go through the queue and has to reach the peer all the same - once the peer runs again it drains
// what was flushed, then reads end-of-stream and cannot send any more.
func c10FullQueueBody(serverCloses bool) func() {
	return func() {
		p := newEPair(pairOpts{QueueCap: 1})
		var cst, sst *Stream
		vrt.Quiet(true)
		tc := vrt.GoProc("open-c", 1, func() {
			cst, _ = p.c.OpenStream()
			cst.BufferWriter().WriteBytes([]byte{0x55})
			cst.Flush(false)
		})
		ts := vrt.GoProc("open-s", 2, func() {
			sst, _ = p.s.AcceptStream()
			sst.BufferReader().ReadBytes(1)
			sst.BufferReader().ReleasePreviousRead()
		})
		vrt.WaitThreads(tc, ts)
		vrt.WaitIdle(0)
		vrt.Quiet(false)
		if cst == nil || sst == nil {
			vrt.Failf("harness", "could not establish the stream")
		}
		closer, other, closerProc, otherProc := cst, sst, 1, 2
		if serverCloses {
			closer, other, closerProc, otherProc = sst, cst, 2, 1
		}
		p.router.paused[otherProc] = true // the peer stops consuming: the closer's send queue (1 element) fills up
		data := patBytes(3, 0, 5)
		t1 := vrt.GoProc("closer", closerProc, func() {
			closer.BufferWriter().WriteBytes(data)
			if err := closer.Flush(false); err != nil {
				vrt.Failf("harness", "flush into the empty queue: %v", err)
			}
			if err := closer.Close(); err != nil {
				vrt.Count("close-returned:" + err.Error())
			}
		})
		vrt.WaitThreads(t1)
		p.router.paused[otherProc] = false
		vrt.WaitIdle(vrt.Second)
		t2 := vrt.GoProc("peer", otherProc, func() {
			other.SetReadDeadline(vrt.Now().Add(3 * vrt.Second))
			got, err := other.BufferReader().ReadBytes(len(data))
			if err != nil || string(got) != string(data) {
				vrt.Failf("drain", "the peer could not drain what was flushed before the close: %x, %v", got, err)
			}
			_, err = other.BufferReader().ReadBytes(1)
			if err == ErrTimeout {
				vrt.Failf("peer-never-told", "Close was called while the send queue was full; 3 virtual seconds after the peer runs again it still has not been told (its read timed out, stream state %d)", other.getStreamState())
			}
			if err != ErrEndOfStream {
				vrt.Failf("peer-eof", "peer read after draining returned %v, want ErrEndOfStream", err)
			}
			other.BufferWriter().WriteBytes([]byte("x"))
			if err := other.Flush(false); err != ErrStreamClosed {
				vrt.Failf("peer-can-send", "peer Flush after the close returned %v", err)
			}
			other.Close()
		})
		vrt.WaitThreads(t2)
		vrt.WaitIdle(vrt.Second)
		vrt.Outcome(fmt.Sprintf("closer=%d peer=%d", closer.getStreamState(), other.getStreamState()))
	}
}

func TestVerif_C10(t *testing.T) {
	mk := func(o c10Opts, b, bt int) bScenario {
		return bScenario{Name: o.name, Bound: b, BoundT: bt, Body: c10Body(o)}
	}
	w := newWorker(t, "C10")
	defer w.finish()
	if runHistories(w, "C10", 5, 6) {
		return
	}
	runBScenariosW(w, "C10", []bScenario{
		mk(c10Opts{name: "client-close-sync", clientCloses: true}, 2, 3),
		mk(c10Opts{name: "both-close-at-once", clientCloses: true, serverCloses: true}, 2, 3),
		mk(c10Opts{name: "double-close-concurrent", clientCloses: true, doubleClose: true}, 1, 2),
		mk(c10Opts{name: "server-closes-client-reads-eof", serverCloses: true, clientReadEOF: true}, 1, 2),
		mk(c10Opts{name: "callback-server-client-close", serverCB: true, clientCloses: true}, 1, 2),
		mk(c10Opts{name: "callback-server-local-close", serverCB: true, serverCloses: true, clientReadEOF: true}, 2, 3),
		mk(c10Opts{name: "close-inside-ondata", serverCB: true, closeInCB: true, clientReadEOF: true}, 2, 3),
		mk(c10Opts{name: "peer-close-during-ondata-then-close-inside", serverCB: true, closeInCB: true, waitRemote: true, clientCloses: true}, 1, 2),
		{Name: "close-while-send-queue-full-client", Bound: 1, BoundT: 2, Body: c10FullQueueBody(false)},
		{Name: "close-while-send-queue-full-server", Bound: 1, BoundT: 2, Body: c10FullQueueBody(true)},
	})
}
