//go:build verif

package shmipc

import (
	"fmt"
	"os"
	"sort"
	"strings"
	"testing"

	"github.com/cloudwego/shmipc-go/internal/vrt"
)

// C14 — peer death and session close are contained and release every resource.
//
// Real pair under the scheduler. The "peer dies" fault (all threads of the peer process stop for good, its
// descriptors are closed, which is what the survivor's kernel reports as a hang-up) and Session.Close can be
// scheduled at ANY scheduling point of a small workload, which covers "after the k-th event / mid-flush /
// mid-read" exhaustively within the deviation bound. An access to memory the code already unmapped is a
// recoverable fault of the accessing thread (mprotect PROT_NONE + SetPanicOnFault) and counts as a panic.
// Oracles: no panic, no fault, no deadlock; the survivor ends up closed; every pending and later stream call
// returns an error; streams with callbacks get exactly one close callback; Close twice / concurrently is
// harmless; once both ends are closed and the system is quiescent nothing the sessions created is left:
// no mapping (buffer manager table empty, queue mappings unmapped), no descriptor, no /dev/shm file.

type c14Opts struct {
	name       string
	file       bool   // /dev/shm files instead of memfd
	closer     string // "client" | "server" | "both" | "double-client" | "kill-server" | "kill-client"
	work       string // "echo" | "flush-full-queue" | "open-streams" | "metrics" | "callback-echo"
	queueCap   uint32
	stallPeer  bool
}

func c14Census(p *ePair, what string, wantSurvivorOnly bool) {
	// mappings
	if left := p.tableEntries(-1); len(left) != 0 {
		vrt.Failf("mapping-left", "%s: %s", what, strings.Join(left, "; "))
	}
	for _, s := range []*Session{p.c, p.s} {
		if s != nil && s.IsClosed() && s.queueManager != nil {
			vrt.Failf("mapping-left", "%s: a closed session still holds its queue mapping", what)
		}
	}
	// descriptors: everything opened since the pair was begun, except the two epoll descriptors of the event loops
	keep := map[int]bool{}
	for _, d := range p.router.d {
		if d.epollFd >= 0 {
			keep[d.epollFd] = true
		}
	}
	var extra []string
	for fd := range listFds() {
		if !p.baseFds[fd] && !keep[fd] {
			tgt, err := os.Readlink(fmt.Sprintf("/proc/self/fd/%d", fd))
			if err != nil {
				continue // the descriptor of the directory listing itself
			}
			extra = append(extra, fmt.Sprintf("%d->%s", fd, tgt))
		}
	}
	sort.Strings(extra)
	if len(extra) > 0 {
		vrt.Failf("fd-left", "%s: descriptors created by the sessions are still open: %s", what, strings.Join(extra, " "))
	}
	// files
	for _, f := range []string{"/dev/shm/" + p.name + "_queue", "/dev/shm/" + p.name + bufferPathSuffix} {
		if _, err := os.Stat(f); err == nil {
			vrt.Failf("file-left", "%s: %s still exists", what, f)
		}
	}
}

func c14Body(o c14Opts) func() {
	return func() {
		var rcS *recordingCallbacks
		lcb := &listenCB{}
		lcb.onNew = func(s *Stream) {
			rc := &recordingCallbacks{st: s}
			if rcS == nil {
				rcS = rc
			}
			rc.onData = func(r BufferReader) {
				b, err := r.ReadBytes(r.Len())
				if err == nil {
					rc.got = append(rc.got, b...)
					r.ReleasePreviousRead()
					// echo
					s.BufferWriter().WriteBytes(b)
					s.Flush(false)
				}
			}
			s.SetCallbacks(rc)
		}
		po := pairOpts{File: o.file, QueueCap: o.queueCap}
		if o.work == "callback-echo" {
			po.ListenCB = lcb
		}
		p := newEPair(po)
		if o.stallPeer {
			p.router.paused[2] = true
		}
		var ths []*vrt.Thread
		var errsAfter []error
		var heldStream *Stream
		victim := p.c // the session whose closure is observed by the workload
		switch o.work {
		case "echo", "callback-echo":
			ths = append(ths, vrt.GoProc("client", 1, func() {
				st, err := p.c.OpenStream()
				if err != nil {
					return // session already closed: fine
				}
				st.SetReadDeadline(vrt.Now().Add(20 * vrt.Second))
				for i := 0; i < 2; i++ {
					if err := c09Flush(st, 1, i*5, 5); err != nil {
						errsAfter = append(errsAfter, err)
						break
					}
					if _, err := st.BufferReader().ReadBytes(5); err != nil {
						if err == ErrTimeout {
							vrt.Failf("hang", "client read did not return although its session was closed / the peer died (timed out after 20 virtual seconds)")
						}
						errsAfter = append(errsAfter, err)
						break
					}
					st.BufferReader().ReleasePreviousRead()
				}
				st.Close()
			}))
			if o.work == "echo" {
				ths = append(ths, vrt.GoProc("server", 2, func() {
					st, err := p.s.AcceptStream()
					if err != nil {
						return
					}
					st.SetReadDeadline(vrt.Now().Add(20 * vrt.Second))
					for i := 0; i < 2; i++ {
						b, err := st.BufferReader().ReadBytes(5)
						if err != nil {
							if err == ErrTimeout {
								vrt.Failf("hang", "server read did not return although the peer died / the session closed (timed out after 20 virtual seconds)")
							}
							break
						}
						st.BufferWriter().WriteBytes(b)
						st.BufferReader().ReleasePreviousRead()
						if err := st.Flush(false); err != nil {
							break
						}
					}
					st.Close()
				}))
			}
		case "hold-stream":
			ths = append(ths, vrt.GoProc("client", 1, func() {
				st, err := p.c.OpenStream()
				if err != nil {
					return
				}
				heldStream = st
				if c09Flush(st, 1, 0, 5) == nil {
					st.SetReadDeadline(vrt.Now().Add(20 * vrt.Second))
					st.BufferReader().ReadBytes(5)
				}
			}))
			ths = append(ths, vrt.GoProc("server", 2, func() {
				st, err := p.s.AcceptStream()
				if err != nil {
					return
				}
				st.SetReadDeadline(vrt.Now().Add(20 * vrt.Second))
				if b, err := st.BufferReader().ReadBytes(5); err == nil {
					st.BufferWriter().WriteBytes(b)
					st.Flush(false)
				}
			}))
		case "flush-full-queue":
			ths = append(ths, vrt.GoProc("client", 1, func() {
				st, err := p.c.OpenStream()
				if err != nil {
					return
				}
				c09Flush(st, 1, 0, 5)
				errsAfter = append(errsAfter, c09Flush(st, 1, 5, 5)) // waits in the queue-full retry loop while the session goes down
				st.Close()
			}))
		case "open-streams":
			ths = append(ths, vrt.GoProc("client", 1, func() {
				for i := 0; i < 3; i++ {
					st, err := p.c.OpenStream()
					if err != nil {
						errsAfter = append(errsAfter, err)
						continue
					}
					c09Flush(st, 1, 0, 3)
				}
			}))
		case "metrics":
			ths = append(ths, vrt.GoProc("client", 1, func() {
				for i := 0; i < 3; i++ {
					p.c.GetMetrics()
					p.c.GetActiveStreamCount()
				}
			}))
		}
		switch o.closer {
		case "client":
			ths = append(ths, vrt.GoLazy("closer", 1, func() { p.c.Close() }))
		case "server":
			victim = p.s
			ths = append(ths, vrt.GoLazy("closer", 2, func() { p.s.Close() }))
		case "both":
			ths = append(ths, vrt.GoLazy("closer-c", 1, func() { p.c.Close() }), vrt.GoLazy("closer-s", 2, func() { p.s.Close() }))
		case "double-client":
			ths = append(ths, vrt.GoLazy("closer1", 1, func() { p.c.Close() }), vrt.GoLazy("closer2", 1, func() { p.c.Close(); p.c.Close() }))
		case "kill-server":
			ths = append(ths, vrt.GoLazy("killer", 0, func() { p.killProc(2) }))
		case "kill-client":
			victim = p.s
			ths = append(ths, vrt.GoLazy("killer", 0, func() { p.killProc(1) }))
		}
		vrt.WaitThreads(ths...)
		vrt.WaitIdle(2 * vrt.Second)
		killed := strings.HasPrefix(o.closer, "kill")
		p.router.paused[2] = false // a stalled peer resumes: its own close has to be able to complete
		vrt.WaitIdle(2 * vrt.Second)
		if !victim.IsClosed() {
			vrt.Failf("not-closed", "%s: the session is not closed after its peer died / Close was called", o.closer)
		}
		// later calls fail
		var lateErr error
		t := vrt.GoProc("late", victimProc(p, victim), func() {
			_, lateErr = victim.OpenStream()
			victim.Close() // idempotent
			if heldStream != nil && victim == p.c {
				// a stream the user still holds: every later call fails with an error (and touches nothing that is gone)
				heldStream.BufferWriter().WriteBytes(patBytes(1, 0, 100))
				if err := heldStream.Flush(false); err == nil {
					vrt.Failf("late-call-succeeded", "Flush on a stream of a closed session returned nil")
				}
				if _, err := heldStream.BufferReader().ReadBytes(3); err == nil {
					vrt.Failf("late-call-succeeded", "ReadBytes on a stream of a closed session returned data")
				}
				heldStream.BufferReader().ReleasePreviousRead()
				heldStream.Close()
				heldStream.Close()
			}
		})
		vrt.WaitThreads(t)
		if lateErr == nil {
			vrt.Failf("open-after-close", "OpenStream on a closed session succeeded")
		}
		if rcS != nil && o.closer != "kill-server" {
			vrt.WaitIdle(vrt.Second)
			if p.s.IsClosed() && rcS.local+rcS.remote != 1 {
				vrt.Failf("close-callbacks", "server stream with callbacks got OnLocalClose x%d OnRemoteClose x%d after its session closed", rcS.local, rcS.remote)
			}
		}
		// close what is left (the survivor of a kill closes itself when it notices; the other end is dead)
		if !killed {
			t := vrt.GoProc("final-close", 0, func() {})
			vrt.WaitThreads(t)
			tc := vrt.GoProc("final-close-c", 1, func() { p.c.Close() })
			ts := vrt.GoProc("final-close-s", 2, func() { p.s.Close() })
			vrt.WaitThreads(tc, ts)
			vrt.WaitIdle(2 * vrt.Second)
			c14Census(p, "both ends closed", false)
		}
		vrt.Outcome(fmt.Sprintf("%s errs=%v", o.closer, errsAfter))
	}
}

func victimProc(p *ePair, s *Session) int {
	if s == p.c {
		return 1
	}
	return 2
}

func TestVerif_C14(t *testing.T) {
	mk := func(o c14Opts, b, bt int) bScenario {
		return bScenario{Name: o.name, Bound: b, BoundT: bt, Body: c14Body(o), Live: true}
	}
	runBScenarios(t, "C14", []bScenario{
		mk(c14Opts{name: "echo-client-close", work: "echo", closer: "client"}, 1, 2),
		mk(c14Opts{name: "echo-server-close-file", work: "echo", closer: "server", file: true}, 1, 2),
		mk(c14Opts{name: "echo-both-close", work: "echo", closer: "both"}, 1, 2),
		mk(c14Opts{name: "echo-double-close", work: "echo", closer: "double-client"}, 1, 2),
		mk(c14Opts{name: "echo-kill-server", work: "echo", closer: "kill-server"}, 1, 2),
		mk(c14Opts{name: "echo-kill-client", work: "echo", closer: "kill-client"}, 1, 2),
		mk(c14Opts{name: "callback-echo-client-close", work: "callback-echo", closer: "client"}, 1, 2),
		mk(c14Opts{name: "callback-echo-kill-client", work: "callback-echo", closer: "kill-client"}, 1, 2),
		mk(c14Opts{name: "hold-stream-kill-server", work: "hold-stream", closer: "kill-server"}, 1, 2),
		mk(c14Opts{name: "hold-stream-client-close", work: "hold-stream", closer: "client"}, 1, 2),
		mk(c14Opts{name: "open-streams-vs-close", work: "open-streams", closer: "client"}, 2, 3),
		mk(c14Opts{name: "metrics-vs-close", work: "metrics", closer: "client"}, 1, 2),
		mk(c14Opts{name: "flush-full-queue-vs-close", work: "flush-full-queue", closer: "client", queueCap: 1, stallPeer: true}, 2, 3),
		mk(c14Opts{name: "flush-full-queue-vs-kill-server", work: "flush-full-queue", closer: "kill-server", queueCap: 1, stallPeer: true}, 1, 2),
		// mid-handshake (the environment and oracles of C12's failure enumeration: the peer process stops, and the
		// kernel closes its descriptors, at any scheduling point of the real newSession exchange; the survivor returns
		// in time and holds no descriptor, mapping, table entry or file afterwards)
		{Name: "handshake-memfd-client-dies", Bound: 1, BoundT: 2, Body: c12Body(c12Opts{kill: 1, closed: true}), Live: true},
		{Name: "handshake-memfd-server-dies", Bound: 1, BoundT: 2, Body: c12Body(c12Opts{kill: 2, closed: true}), Live: true},
		{Name: "handshake-file-client-dies", Bound: 1, BoundT: 2, Body: c12Body(c12Opts{file: true, kill: 1, closed: true}), Live: true},
		{Name: "handshake-file-server-dies", Bound: 1, BoundT: 2, Body: c12Body(c12Opts{file: true, kill: 2, closed: true}), Live: true},
	})
}
