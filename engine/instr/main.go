// Command instr builds the scratch package the checks compile: a copy of the current /repo working tree
// (non-test files), optionally rewritten so that every synchronisation operation and every access to shared
// memory goes through the controlled runtime (internal/vrt), plus the harness files and the runtime itself.
// Nothing is written to /repo.
package main

import (
	"bytes"
	"flag"
	"fmt"
	"go/ast"
	"go/format"
	"go/token"
	"go/types"
	"io"
	"os"
	"path/filepath"
	"strconv"
	"strings"

	"golang.org/x/tools/go/ast/astutil"
	"golang.org/x/tools/go/packages"
)

const modPath = "github.com/cloudwego/shmipc-go"
const vrtPath = modPath + "/internal/vrt"

var shmFiles = map[string]bool{"buffer_manager.go": true, "buffer_slice.go": true, "queue.go": true}

func die(format string, a ...interface{}) {
	fmt.Fprintf(os.Stderr, "instr: "+format+"\n", a...)
	os.Exit(2)
}

func copyFile(src, dst string) {
	in, err := os.Open(src)
	if err != nil {
		die("%v", err)
	}
	defer in.Close()
	out, err := os.Create(dst)
	if err != nil {
		die("%v", err)
	}
	defer out.Close()
	if _, err := io.Copy(out, in); err != nil {
		die("%v", err)
	}
}

func main() {
	repo := flag.String("repo", "/repo", "repository working tree")
	out := flag.String("out", "", "scratch output directory (created, must be outside repo)")
	vrtDir := flag.String("vrt", "", "directory of the vrt runtime sources")
	harness := flag.String("harness", "", "directory of harness files (copied as *_test.go)")
	mode := flag.String("mode", "instr", "instr | plain")
	only := flag.String("only", "", "comma separated list of harness files to copy (default all)")
	flag.Parse()
	if *out == "" || *vrtDir == "" {
		die("need -out and -vrt")
	}
	os.RemoveAll(*out)
	if err := os.MkdirAll(filepath.Join(*out, "internal", "vrt"), 0o755); err != nil {
		die("%v", err)
	}
	ents, err := os.ReadDir(*repo)
	if err != nil {
		die("%v", err)
	}
	for _, e := range ents {
		n := e.Name()
		if e.IsDir() {
			continue
		}
		if strings.HasSuffix(n, "_test.go") {
			continue
		}
		if strings.HasSuffix(n, ".go") || n == "go.mod" || n == "go.sum" {
			copyFile(filepath.Join(*repo, n), filepath.Join(*out, n))
		}
	}
	vents, _ := os.ReadDir(*vrtDir)
	for _, e := range vents {
		if strings.HasSuffix(e.Name(), ".go") && !strings.HasSuffix(e.Name(), "_test.go") {
			copyFile(filepath.Join(*vrtDir, e.Name()), filepath.Join(*out, "internal", "vrt", e.Name()))
		}
	}
	// go.mod: porcupine is in the module cache; -mod=mod lets go complete go.sum in the scratch copy.
	gm, _ := os.ReadFile(filepath.Join(*out, "go.mod"))
	gm = append(gm, []byte("\nrequire github.com/anishathalye/porcupine v1.3.0\n")...)
	os.WriteFile(filepath.Join(*out, "go.mod"), gm, 0o644)

	if *mode == "instr" {
		instrument(*out)
	}
	if *harness != "" {
		want := map[string]bool{}
		for _, s := range strings.Split(*only, ",") {
			if s != "" {
				want[s] = true
			}
		}
		hents, _ := os.ReadDir(*harness)
		for _, e := range hents {
			n := e.Name()
			if !strings.HasSuffix(n, ".go") {
				continue
			}
			if len(want) > 0 && !want[n] && !strings.HasPrefix(n, "common") {
				continue
			}
			if *mode == "plain" && strings.HasPrefix(n, "sched_") {
				continue
			}
			dst := "zz_verif_" + strings.TrimSuffix(n, ".go") + "_test.go"
			copyFile(filepath.Join(*harness, n), filepath.Join(*out, dst))
		}
	}
}

type rewriter struct {
	fset    *token.FileSet
	info    *types.Info
	file    *ast.File
	name    string
	needVrt bool
	stats   map[string]int
}

func instrument(dir string) {
	cfg := &packages.Config{
		Mode: packages.NeedName | packages.NeedFiles | packages.NeedSyntax | packages.NeedTypes | packages.NeedTypesInfo | packages.NeedImports | packages.NeedDeps,
		Dir:  dir,
		Env:  append(os.Environ(), "GOFLAGS=-mod=mod", "GOPROXY=off", "GOSUMDB=off", "GOTOOLCHAIN=local"),
	}
	pkgs, err := packages.Load(cfg, ".")
	if err != nil {
		die("load: %v", err)
	}
	if len(pkgs) != 1 {
		die("expected one package, got %d", len(pkgs))
	}
	p := pkgs[0]
	for _, e := range p.Errors {
		fmt.Fprintf(os.Stderr, "instr: type error (continuing): %v\n", e)
	}
	total := map[string]int{}
	for i, f := range p.Syntax {
		_ = i; path := p.Fset.Position(f.Package).Filename
		rw := &rewriter{fset: p.Fset, info: p.TypesInfo, file: f, name: filepath.Base(path), stats: total}
		rw.run()
		var buf bytes.Buffer
		if err := format.Node(&buf, p.Fset, f); err != nil {
			die("format %s: %v", path, err)
		}
		hdr := "//go:build verif\n\n"
		src := buf.String()
		if strings.HasPrefix(src, "//go:build") {
			// merge with the existing constraint
			nl := strings.Index(src, "\n")
			src = "//go:build verif && (" + strings.TrimSpace(strings.TrimPrefix(src[:nl], "//go:build")) + ")" + src[nl:]
			// drop legacy +build lines
			lines := strings.Split(src, "\n")
			outl := lines[:0]
			for _, l := range lines {
				if strings.HasPrefix(l, "// +build") {
					continue
				}
				outl = append(outl, l)
			}
			src = strings.Join(outl, "\n")
			hdr = ""
		}
		if err := os.WriteFile(path, []byte(hdr+src), 0o644); err != nil {
			die("%v", err)
		}
	}
	var keys []string
	for k, v := range total {
		keys = append(keys, k+"="+strconv.Itoa(v))
	}
	fmt.Fprintf(os.Stderr, "instr: rewrote %d files: %s\n", len(p.Syntax), strings.Join(keys, " "))
}

func sel(pkg, name string) ast.Expr {
	return &ast.SelectorExpr{X: ast.NewIdent(pkg), Sel: ast.NewIdent(name)}
}

func call(fun ast.Expr, args ...ast.Expr) *ast.CallExpr {
	return &ast.CallExpr{Fun: fun, Args: args}
}

func (rw *rewriter) vrt(name string, args ...ast.Expr) *ast.CallExpr {
	rw.needVrt = true
	return call(sel("vrt", name), args...)
}

func (rw *rewriter) exprString(e ast.Expr) string {
	var b bytes.Buffer
	format.Node(&b, rw.fset, e)
	return b.String()
}

func isPkgSel(e ast.Expr, pkg, name string) bool {
	s, ok := e.(*ast.SelectorExpr)
	if !ok {
		return false
	}
	id, ok := s.X.(*ast.Ident)
	return ok && id.Name == pkg && s.Sel.Name == name
}

func (rw *rewriter) isIntegerPtrDeref(e ast.Expr) bool {
	st, ok := e.(*ast.StarExpr)
	if !ok {
		return false
	}
	tv, ok := rw.info.Types[st]
	if !ok || tv.IsType() {
		return false
	}
	b, ok := tv.Type.Underlying().(*types.Basic)
	return ok && b.Info()&types.IsInteger != 0
}

// isNetListener: the expression's static type is the interface net.Listener.
func (rw *rewriter) isNetListener(e ast.Expr) bool {
	t := rw.info.TypeOf(e)
	if t == nil {
		return false
	}
	n, ok := t.(*types.Named)
	return ok && n.Obj().Pkg() != nil && n.Obj().Pkg().Path() == "net" && n.Obj().Name() == "Listener"
}

func (rw *rewriter) isHeaderIndex(e ast.Expr) bool {
	ix, ok := e.(*ast.IndexExpr)
	if !ok {
		return false
	}
	t := rw.info.TypeOf(ix.X)
	if t == nil {
		return false
	}
	n, ok := t.(*types.Named)
	return ok && n.Obj().Name() == "bufferHeader"
}

func addr(e ast.Expr) ast.Expr { return &ast.UnaryExpr{Op: token.AND, X: e} }

// ptrOf returns the pointer expression for a shared-memory lvalue (deref or header index).
func (rw *rewriter) ptrOf(e ast.Expr) ast.Expr {
	if st, ok := e.(*ast.StarExpr); ok {
		return st.X
	}
	return addr(e)
}

func (rw *rewriter) isShmLvalue(e ast.Expr) bool {
	return rw.isIntegerPtrDeref(e) || rw.isHeaderIndex(e)
}

var assignOps = map[token.Token]token.Token{
	token.ADD_ASSIGN: token.ADD, token.SUB_ASSIGN: token.SUB, token.MUL_ASSIGN: token.MUL, token.QUO_ASSIGN: token.QUO,
	token.REM_ASSIGN: token.REM, token.AND_ASSIGN: token.AND, token.OR_ASSIGN: token.OR, token.XOR_ASSIGN: token.XOR,
	token.SHL_ASSIGN: token.SHL, token.SHR_ASSIGN: token.SHR, token.AND_NOT_ASSIGN: token.AND_NOT,
}

func (rw *rewriter) run() {
	f := rw.file
	shm := shmFiles[rw.name]
	inPop := false
	pre := func(c *astutil.Cursor) bool {
		if fd, ok := c.Node().(*ast.FuncDecl); ok {
			inPop = fd.Name.Name == "pop" && fd.Recv != nil && strings.Contains(rw.exprString(fd.Recv.List[0].Type), "bufferList")
		}
		return true
	}
	post := func(c *astutil.Cursor) bool {
		switch n := c.Node().(type) {
		case *ast.FuncDecl:
			inPop = false
		case *ast.ForStmt:
			if shm && inPop {
				if be, ok := n.Cond.(*ast.BinaryExpr); ok && be.Op == token.LSS {
					if lit, ok := be.Y.(*ast.BasicLit); ok && lit.Kind == token.INT {
						be.Y = rw.vrt("RetryBound", lit)
						rw.stats["retry"]++
					}
				}
			}
		case *ast.CallExpr:
			// statistics counters are not scheduling points (A11)
			if isPkgSel(n.Fun, "atomic", "AddUint64") && len(n.Args) == 2 && strings.Contains(rw.exprString(n.Args[0]), "stats.") {
				n.Fun = sel("atomic", "AddStat")
				rw.stats["stat"]++
			} else if isPkgSel(n.Fun, "atomic", "LoadUint64") && len(n.Args) == 1 && strings.Contains(rw.exprString(n.Args[0]), "stats.") {
				n.Fun = sel("atomic", "LoadStat")
				rw.stats["stat"]++
			} else if isPkgSel(n.Fun, "gopool", "Go") {
				n.Fun = sel("vrt", "Go")
				rw.needVrt = true
				rw.stats["go"]++
			} else if isPkgSel(n.Fun, "runtime", "Gosched") {
				n.Fun = sel("vrt", "Yield")
				rw.needVrt = true
			} else if isPkgSel(n.Fun, "net", "DialTimeout") && len(n.Args) == 3 {
				// the time-out of a dial is REAL time (package net), everything else runs on virtual time: a connect to a
				// unix or loopback socket succeeds or fails at once, so a generous real limit changes nothing - except that an
				// overloaded machine cannot make a dial fail any more
				n.Fun = sel("vrt", "DialTimeout")
				rw.needVrt = true
				rw.stats["dial"]++
			} else if isPkgSel(n.Fun, "syscall", "Munmap") {
				n.Fun = sel("vrt", "Munmap")
				rw.needVrt = true
				rw.stats["munmap"]++
			} else if strings.HasPrefix(rw.name, "event_dispatcher") && isPkgSel(n.Fun, "syscall", "Syscall") && len(n.Args) == 4 && isPkgSel(n.Args[0], "syscall", "SYS_WRITE") {
				// connEventHandler.write: the kernel may take fewer bytes than offered; the explorer owns that answer (A9)
				n.Fun = sel("vrt", "SyscallWrite")
				rw.needVrt = true
				rw.stats["syswrite"]++
			} else if rw.name == "block_io.go" && isPkgSel(n.Fun, "syscall", "Read") {
				n.Fun = sel("vrt", "SysRead")
				rw.needVrt = true
			} else if rw.name == "block_io.go" && isPkgSel(n.Fun, "syscall", "Recvmsg") {
				n.Fun = sel("vrt", "SysRecvmsg")
				rw.needVrt = true
			} else if id, ok := n.Fun.(*ast.Ident); ok && id.Name == "MemfdCreate" && rw.name != "sys_memfd_create_linux.go" {
				// descriptors the code under test creates are attributed to the "process" (thread tag) that created them
				if _, wrapped := c.Parent().(*ast.CallExpr); !wrapped {
					c.Replace(rw.vrt("TrackFd", n))
				}
			} else if isPkgSel(n.Fun, "syscall", "ParseUnixRights") {
				if pc, wrapped := c.Parent().(*ast.CallExpr); !wrapped || !isPkgSel(pc.Fun, "vrt", "TrackFds") {
					c.Replace(rw.vrt("TrackFds", n))
				}
			} else if rw.name == "event_dispatcher.go" && len(n.Args) == 0 {
				// getConnDupFd: `return f.File()` -> the duplicated descriptor's *os.File is tracked so that an aborted
				// execution can close it explicitly (no finalizer closing a reused descriptor number later)
				if se, ok := n.Fun.(*ast.SelectorExpr); ok && se.Sel.Name == "File" {
					if _, isRet := c.Parent().(*ast.ReturnStmt); isRet {
						c.Replace(rw.vrt("TrackFile", n))
					}
				}
			} else if se, ok := n.Fun.(*ast.SelectorExpr); ok && len(n.Args) == 0 && (se.Sel.Name == "Accept" || se.Sel.Name == "Close") && rw.isNetListener(se.X) {
				// Accept on a net.Listener is a blocking scheduling point (readiness of the listening descriptor or the
				// listener being closed) followed by the real, then non-blocking, Accept; Close is noted for that purpose
				if se.Sel.Name == "Accept" {
					c.Replace(rw.vrt("Accept", se.X))
				} else {
					c.Replace(rw.vrt("CloseListener", se.X))
				}
				rw.stats["listener"]++
			}
		case *ast.RangeStmt:
			// rule A10: iteration over a map in a deterministic key order (Go randomises it; the explorer must own
			// every source of nondeterminism, and a replayed prefix must see the same order again)
			if t := rw.info.TypeOf(n.X); t != nil {
				if _, isMap := t.Underlying().(*types.Map); isMap && n.Tok == token.DEFINE {
					keyName := "vrtKey"
					if id, ok := n.Key.(*ast.Ident); ok && id.Name != "_" {
						keyName = id.Name
					}
					var pre []ast.Stmt
					if n.Value != nil {
						if id, ok := n.Value.(*ast.Ident); !ok || id.Name != "_" {
							pre = append(pre, &ast.AssignStmt{Lhs: []ast.Expr{n.Value}, Tok: token.DEFINE, Rhs: []ast.Expr{&ast.IndexExpr{X: n.X, Index: ast.NewIdent(keyName)}}})
						}
					}
					n.Body.List = append(pre, n.Body.List...)
					n.Key = ast.NewIdent("_")
					n.Value = ast.NewIdent(keyName)
					n.X = rw.vrt("SortedKeys", n.X)
					rw.stats["maprange"]++
				}
			}
		case *ast.GoStmt:
			rw.stats["go"]++
			c.Replace(rw.goStmt(n))
		case *ast.SelectStmt:
			rw.stats["select"]++
			c.Replace(rw.selectStmt(n))
		case *ast.SendStmt:
			if _, ok := c.Parent().(*ast.CommClause); ok {
				return true
			}
			rw.stats["chanop"]++
			c.InsertBefore(&ast.ExprStmt{X: rw.vrt("SendPoint", n.Chan)})
		case *ast.ExprStmt:
			if _, ok := c.Parent().(*ast.CommClause); ok && c.Name() == "Comm" {
				return true
			}
			if u, ok := n.X.(*ast.UnaryExpr); ok && u.Op == token.ARROW {
				rw.stats["chanop"]++
				c.InsertBefore(&ast.ExprStmt{X: rw.vrt("RecvPoint", u.X)})
			} else if ce, ok := n.X.(*ast.CallExpr); ok {
				if id, ok := ce.Fun.(*ast.Ident); ok && id.Name == "close" && len(ce.Args) == 1 {
					rw.stats["chanop"]++
					c.InsertBefore(&ast.ExprStmt{X: rw.vrt("ClosePoint", ce.Args[0])})
				}
			}
		case *ast.AssignStmt:
			if _, ok := c.Parent().(*ast.CommClause); ok && c.Name() == "Comm" {
				return true
			}
			if len(n.Rhs) == 1 {
				if u, ok := n.Rhs[0].(*ast.UnaryExpr); ok && u.Op == token.ARROW {
					rw.stats["chanop"]++
					c.InsertBefore(&ast.ExprStmt{X: rw.vrt("RecvPoint", u.X)})
					return true
				}
			}
			if shm && len(n.Lhs) == 1 && len(n.Rhs) == 1 && rw.isShmLvalue(n.Lhs[0]) {
				p := rw.ptrOf(n.Lhs[0])
				var v ast.Expr = n.Rhs[0]
				if n.Tok != token.ASSIGN {
					op, ok := assignOps[n.Tok]
					if !ok {
						die("%s: unsupported assignment operator %s", rw.name, n.Tok)
					}
					v = &ast.BinaryExpr{X: rw.vrt("Ld", p), Op: op, Y: &ast.ParenExpr{X: v}}
				}
				rw.stats["st"]++
				c.Replace(&ast.ExprStmt{X: rw.vrt("St", p, v)})
			}
		case *ast.IncDecStmt:
			if shm && rw.isShmLvalue(n.X) {
				die("%s: inc/dec of shared memory not supported by the instrumenter", rw.name)
			}
		case *ast.StarExpr, *ast.IndexExpr:
			if !shm {
				return true
			}
			e := n.(ast.Expr)
			if !rw.isShmLvalue(e) {
				return true
			}
			switch par := c.Parent().(type) {
			case *ast.AssignStmt:
				if c.Name() == "Lhs" {
					return true
				}
			case *ast.UnaryExpr:
				if par.Op == token.AND {
					return true
				}
			case *ast.IncDecStmt:
				return true
			}
			rw.stats["ld"]++
			c.Replace(rw.vrt("Ld", rw.ptrOf(e)))
		}
		return true
	}
	astutil.Apply(f, pre, post)

	// imports
	for _, imp := range f.Imports {
		path, _ := strconv.Unquote(imp.Path.Value)
		switch path {
		case "sync":
			imp.Path.Value = strconv.Quote(vrtPath)
			imp.Name = ast.NewIdent("sync")
		case "sync/atomic":
			imp.Path.Value = strconv.Quote(vrtPath)
			imp.Name = ast.NewIdent("atomic")
		case "time":
			imp.Path.Value = strconv.Quote(vrtPath)
			imp.Name = ast.NewIdent("time")
		}
	}
	if rw.needVrt {
		astutil.AddNamedImport(rw.fset, f, "vrt", vrtPath)
	}
	for _, p := range []struct{ name, path string }{{"gopool", "github.com/bytedance/gopkg/util/gopool"}, {"runtime", "runtime"}, {"net", "net"}} {
		if !usesName(f, p.name) {
			astutil.DeleteNamedImport(rw.fset, f, "", p.path)
		}
	}
}

func usesName(f *ast.File, name string) bool {
	used := false
	ast.Inspect(f, func(n ast.Node) bool {
		if s, ok := n.(*ast.SelectorExpr); ok {
			if id, ok := s.X.(*ast.Ident); ok && id.Name == name && id.Obj == nil {
				used = true
			}
		}
		return !used
	})
	return used
}

// goStmt: `go f(a, b)` => `{ a0, a1 := a, b; vrt.Go(func() { f(a0, a1) }) }` (arguments are evaluated at the go statement).
func (rw *rewriter) goStmt(g *ast.GoStmt) ast.Stmt {
	ce := g.Call
	if len(ce.Args) == 0 {
		return &ast.ExprStmt{X: rw.vrt("Go", &ast.FuncLit{Type: &ast.FuncType{Params: &ast.FieldList{}}, Body: &ast.BlockStmt{List: []ast.Stmt{&ast.ExprStmt{X: ce}}}})}
	}
	var lhs, rhs, args []ast.Expr
	for i, a := range ce.Args {
		id := ast.NewIdent("vrtArg" + strconv.Itoa(i))
		lhs = append(lhs, id)
		rhs = append(rhs, a)
		args = append(args, id)
	}
	inner := &ast.CallExpr{Fun: ce.Fun, Args: args, Ellipsis: ce.Ellipsis}
	return &ast.BlockStmt{List: []ast.Stmt{
		&ast.AssignStmt{Lhs: lhs, Tok: token.DEFINE, Rhs: rhs},
		&ast.ExprStmt{X: rw.vrt("Go", &ast.FuncLit{Type: &ast.FuncType{Params: &ast.FieldList{}}, Body: &ast.BlockStmt{List: []ast.Stmt{&ast.ExprStmt{X: inner}}}})},
	}}
}

func intLit(i int) ast.Expr {
	if i < 0 {
		return &ast.UnaryExpr{Op: token.SUB, X: &ast.BasicLit{Kind: token.INT, Value: strconv.Itoa(-i)}}
	}
	return &ast.BasicLit{Kind: token.INT, Value: strconv.Itoa(i)}
}

// selectStmt rewrites a select into a switch on vrt.SelectPoint, which parks the thread until a case is ready
// and owns the choice among several ready cases.
func (rw *rewriter) selectStmt(s *ast.SelectStmt) ast.Stmt {
	hasDefault := false
	var cases []ast.Expr
	var clauses []ast.Stmt
	idx := 0
	hasLabel := false
	ast.Inspect(s, func(n ast.Node) bool {
		if _, ok := n.(*ast.LabeledStmt); ok {
			hasLabel = true
		}
		return true
	})
	for _, cl := range s.Body.List {
		cc := cl.(*ast.CommClause)
		if cc.Comm == nil {
			hasDefault = true
			clauses = append(clauses, &ast.CaseClause{List: []ast.Expr{intLit(-1)}, Body: cc.Body})
			continue
		}
		var chExpr ast.Expr
		send := false
		switch st := cc.Comm.(type) {
		case *ast.SendStmt:
			chExpr, send = st.Chan, true
		case *ast.ExprStmt:
			chExpr = st.X.(*ast.UnaryExpr).X
		case *ast.AssignStmt:
			chExpr = st.Rhs[0].(*ast.UnaryExpr).X
		default:
			die("%s: unsupported comm clause", rw.name)
		}
		if send {
			cases = append(cases, rw.vrt("S", chExpr))
		} else {
			cases = append(cases, rw.vrt("R", chExpr))
		}
		body := append([]ast.Stmt{cc.Comm}, cc.Body...)
		clauses = append(clauses, &ast.CaseClause{List: []ast.Expr{intLit(idx)}, Body: body})
		idx++
	}
	if !hasLabel {
		// pass-through mode (no execution active, SelectPoint returns -2): the original select.
		// As the default clause it also keeps the switch a terminating statement where the select was one.
		clauses = append(clauses, &ast.CaseClause{List: nil, Body: []ast.Stmt{&ast.SelectStmt{Body: s.Body}}})
	} else {
		clauses = append(clauses, &ast.CaseClause{List: nil, Body: []ast.Stmt{&ast.ExprStmt{X: call(ast.NewIdent("panic"), &ast.BasicLit{Kind: token.STRING, Value: `"vrt: select outside an execution"`})}}})
	}
	hd := "false"
	if hasDefault {
		hd = "true"
	}
	args := append([]ast.Expr{ast.NewIdent(hd)}, cases...)
	return &ast.SwitchStmt{Tag: rw.vrt("SelectPoint", args...), Body: &ast.BlockStmt{List: clauses}}
}
