package vrt

import (
	"sort"
	"time"
)

// Aliases so that `import time ".../vrt"` keeps the package's field and parameter types unchanged.
type (
	Time     = time.Time
	Duration = time.Duration
	Month    = time.Month
)

const (
	Nanosecond  = time.Nanosecond
	Microsecond = time.Microsecond
	Millisecond = time.Millisecond
	Second      = time.Second
	Minute      = time.Minute
	Hour        = time.Hour
)

func nowUnixNano() int64 { return time.Now().UnixNano() }

type vtimer struct {
	when   int64
	seq    int64
	fire   func()
	period int64
	active bool
}

// Timer replaces time.Timer. C is a real channel of capacity 1 filled when the virtual clock reaches the deadline.
type Timer struct {
	C  <-chan Time
	c  chan Time
	rt *time.Timer
	vt *vtimer
	f  func()
}

// Ticker replaces time.Ticker.
type Ticker struct {
	C  <-chan Time
	c  chan Time
	rt *time.Ticker
	vt *vtimer
}

// Now returns the virtual time under the scheduler.
func Now() Time {
	if X == nil {
		return time.Now()
	}
	return time.Unix(0, X.clock)
}

func Since(t Time) Duration { return Now().Sub(t) }
func Until(t Time) Duration { return t.Sub(Now()) }
func Unix(sec, nsec int64) Time { return time.Unix(sec, nsec) }

// VNow returns the virtual clock in ns since the fixed epoch.
func VNow() int64 {
	if X == nil {
		return 0
	}
	return X.clock - epoch0
}

func (x *Exec) addTimer(vt *vtimer) {
	x.tseq++
	vt.seq = x.tseq
	vt.active = true
	x.timers = append(x.timers, vt)
	sort.SliceStable(x.timers, func(i, j int) bool {
		if x.timers[i].when != x.timers[j].when {
			return x.timers[i].when < x.timers[j].when
		}
		return x.timers[i].seq < x.timers[j].seq
	})
}

func (x *Exec) delTimer(vt *vtimer) bool {
	if vt == nil || !vt.active {
		return false
	}
	vt.active = false
	for i, t := range x.timers {
		if t == vt {
			x.timers = append(x.timers[:i], x.timers[i+1:]...)
			break
		}
	}
	return true
}

// fireNext advances the clock to the earliest timer and fires it.
func (x *Exec) fireNext() {
	vt := x.timers[0]
	x.timers = x.timers[1:]
	vt.active = false
	if vt.when > x.clock {
		x.clock = vt.when
	}
	if vt.period > 0 {
		vt.when = x.clock + vt.period
		x.addTimer(vt)
	}
	vt.fire()
}

// TimerPhases returns, for every armed virtual timer, the time it still has to run, in units of step (state keys of
// explicit-state searches: two states that differ only in how far a pending wait has progressed are different states).
func TimerPhases(step Duration) []int64 {
	if X == nil {
		return nil
	}
	out := make([]int64, 0, len(X.timers))
	for _, t := range X.timers {
		out = append(out, (t.when-X.clock)/int64(step))
	}
	return out
}

// PendingTimers returns the number of armed virtual timers.
func PendingTimers() int {
	if X == nil {
		return 0
	}
	return len(X.timers)
}

func NewTimer(d Duration) *Timer {
	x := X
	if x == nil {
		rt := time.NewTimer(d)
		return &Timer{C: rt.C, rt: rt}
	}
	c := make(chan Time, 1)
	t := &Timer{C: c, c: c}
	t.vt = &vtimer{}
	t.arm(x, d)
	return t
}

func (t *Timer) arm(x *Exec, d Duration) {
	if d < 0 {
		d = 0
	}
	t.vt.when = x.clock + int64(d)
	if t.f != nil {
		f := t.f
		t.vt.fire = func() { GoDaemon("afterfunc", f) }
	} else {
		c := t.c
		t.vt.fire = func() {
			select {
			case c <- time.Unix(0, x.clock):
			default:
			}
		}
	}
	x.addTimer(t.vt)
}

func (t *Timer) Stop() bool {
	if t.rt != nil {
		return t.rt.Stop()
	}
	x := X
	if x == nil {
		return false
	}
	return x.delTimer(t.vt)
}

func (t *Timer) Reset(d Duration) bool {
	if t.rt != nil {
		return t.rt.Reset(d)
	}
	x := X
	if x == nil {
		return false
	}
	was := x.delTimer(t.vt)
	t.arm(x, d)
	return was
}

func AfterFunc(d Duration, f func()) *Timer {
	x := X
	if x == nil {
		rt := time.AfterFunc(d, f)
		return &Timer{rt: rt}
	}
	t := &Timer{f: f, vt: &vtimer{}}
	t.arm(x, d)
	return t
}

func After(d Duration) <-chan Time { return NewTimer(d).C }

func NewTicker(d Duration) *Ticker {
	x := X
	if x == nil {
		rt := time.NewTicker(d)
		return &Ticker{C: rt.C, rt: rt}
	}
	c := make(chan Time, 1)
	t := &Ticker{C: c, c: c}
	t.vt = &vtimer{when: x.clock + int64(d), period: int64(d)}
	t.vt.fire = func() {
		select {
		case c <- time.Unix(0, x.clock):
		default:
		}
	}
	x.addTimer(t.vt)
	return t
}

func (t *Ticker) Stop() {
	if t.rt != nil {
		t.rt.Stop()
		return
	}
	if X != nil {
		X.delTimer(t.vt)
	}
}

// Sleep blocks the thread until the virtual clock has advanced by d.
func Sleep(d Duration) {
	x := X
	if x == nil {
		time.Sleep(d)
		return
	}
	if x.aborting {
		return
	}
	woke := false
	vt := &vtimer{when: x.clock + int64(d), fire: func() { woke = true }}
	x.addTimer(vt)
	x.point("sleep", func() bool { return woke })
}
