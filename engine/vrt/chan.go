package vrt

import (
	"reflect"
)

// Case is one communication clause handed to SelectPoint.
type Case struct {
	ch   reflect.Value
	send bool
}

// R is a receive case on ch; S is a send case.
func R(ch interface{}) Case { return Case{ch: reflect.ValueOf(ch)} }
func S(ch interface{}) Case { return Case{ch: reflect.ValueOf(ch), send: true} }

func (c Case) ready() bool {
	if !c.ch.IsValid() || c.ch.IsNil() {
		return false
	}
	if c.send {
		if c.ch.Len() < c.ch.Cap() {
			return true
		}
		return chanClosed(c.ch) // send on closed channel "proceeds" (panics), as in Go
	}
	if c.ch.Len() > 0 {
		return true
	}
	return chanClosed(c.ch)
}

// chanClosed probes closedness of an EMPTY channel without consuming anything: TryRecv on an empty open
// channel yields (invalid,false); on a closed one (zero,false) with a valid value.
func chanClosed(ch reflect.Value) bool {
	if ch.Len() > 0 {
		return false
	}
	if ch.Type().ChanDir()&reflect.RecvDir == 0 {
		return false
	}
	v, ok := ch.TryRecv()
	if ok {
		// cannot happen with Len()==0 under the scheduler (single running thread); fail loudly
		panic("vrt: chanClosed consumed a value")
	}
	return v.IsValid()
}

// SelectAltCost is the deviation cost of taking a ready select case other than the lowest-numbered one
// (Go chooses uniformly at random among ready cases; the explorer owns that choice).
var SelectAltCost = 1

// SelectPoint parks until one of the cases is ready (or returns -1 at once if hasDefault and none is).
// It returns the index of the case the rewritten select must execute. When several are ready the lowest
// index is the default and the others are environment choices (Go picks uniformly at random).
func SelectPoint(hasDefault bool, cases ...Case) int {
	x := X
	if x == nil {
		return -2 // pass-through: caller falls back to the native select
	}
	if x.aborting {
		for i, c := range cases {
			if c.ready() {
				return i
			}
		}
		if hasDefault {
			return -1
		}
		x.point("select-abort", nil) // Goexit
	}
	any := func() bool {
		for _, c := range cases {
			if c.ready() {
				return true
			}
		}
		return false
	}
	if hasDefault {
		x.point("select", nil)
		if !any() {
			return -1
		}
	} else {
		x.point("select", any)
	}
	var rd [8]int
	r := rd[:0]
	for i, c := range cases {
		if c.ready() {
			r = append(r, i)
		}
	}
	if len(r) == 1 {
		return r[0]
	}
	return r[Choose(len(r), SelectAltCost)]
}

// RecvPoint parks until a receive on ch can proceed.
func RecvPoint(ch interface{}) {
	if X == nil {
		return
	}
	c := R(ch)
	if X.aborting {
		if c.ready() {
			return
		}
		X.point("recv-abort", nil)
	}
	X.point("recv", c.ready)
}

// SendPoint parks until a send on ch can proceed.
func SendPoint(ch interface{}) {
	if X == nil {
		return
	}
	c := S(ch)
	if X.aborting {
		if c.ready() {
			return
		}
		X.point("send-abort", nil)
	}
	X.point("send", c.ready)
}

// ClosePoint is a scheduling point before close(ch).
func ClosePoint(ch interface{}) {
	if X == nil || X.aborting {
		return
	}
	X.point("close", nil)
}
