package vrt

import (
	"fmt"
	"sync"
	"sync/atomic"
	"unsafe"
)

// Locker mirrors sync.Locker.
type Locker = sync.Locker

// Mutex replaces sync.Mutex. Under the scheduler Lock is a blocking scheduling point.
type Mutex struct {
	m     sync.Mutex
	held  bool
	owner int
}

func (m *Mutex) Lock() {
	x := X
	if x == nil {
		m.m.Lock()
		m.held = true
		return
	}
	if x.aborting {
		// unwinding: never block
		m.held = true
		return
	}
	x.point("lock", func() bool { return !m.held })
	m.held = true
	if x.cur != nil {
		m.owner = x.cur.ID
	}
}

func (m *Mutex) TryLock() bool {
	x := X
	if x == nil {
		if m.m.TryLock() {
			m.held = true
			return true
		}
		return false
	}
	if !x.aborting {
		x.point("trylock", nil)
	}
	if m.held {
		return false
	}
	m.held = true
	return true
}

func (m *Mutex) Unlock() {
	x := X
	if x == nil {
		m.held = false
		m.m.Unlock()
		return
	}
	if !m.held && !x.aborting {
		panic("vrt: unlock of unlocked mutex")
	}
	m.held = false
}

// Held reports the lock state (for harness state keys).
func (m *Mutex) Held() bool { return m.held }

// RWMutex replaces sync.RWMutex.
type RWMutex struct {
	m       sync.RWMutex
	writer  bool
	readers int
}

func (m *RWMutex) Lock() {
	x := X
	if x == nil {
		m.m.Lock()
		m.writer = true
		return
	}
	if x.aborting {
		m.writer = true
		return
	}
	x.point("wlock", func() bool { return !m.writer && m.readers == 0 })
	m.writer = true
}

func (m *RWMutex) Unlock() {
	x := X
	if x == nil {
		m.writer = false
		m.m.Unlock()
		return
	}
	if !m.writer && !x.aborting {
		panic("vrt: unlock of unlocked rwmutex")
	}
	m.writer = false
}

func (m *RWMutex) RLock() {
	x := X
	if x == nil {
		m.m.RLock()
		return
	}
	if x.aborting {
		m.readers++
		return
	}
	x.point("rlock", func() bool { return !m.writer })
	m.readers++
}

func (m *RWMutex) RUnlock() {
	x := X
	if x == nil {
		m.m.RUnlock()
		return
	}
	if m.readers <= 0 && !x.aborting {
		panic("vrt: runlock of unlocked rwmutex")
	}
	m.readers--
}

// WaitGroup replaces sync.WaitGroup.
type WaitGroup struct {
	wg sync.WaitGroup
	n  int
}

func (w *WaitGroup) Add(d int) {
	x := X
	if x == nil {
		w.wg.Add(d)
		return
	}
	w.n += d
	if w.n < 0 && !x.aborting {
		panic("sync: negative WaitGroup counter")
	}
}

func (w *WaitGroup) Done() { w.Add(-1) }

func (w *WaitGroup) Wait() {
	x := X
	if x == nil {
		w.wg.Wait()
		return
	}
	if x.aborting {
		return
	}
	x.point("wgwait", func() bool { return w.n <= 0 })
}

// Count returns the counter (harness use).
func (w *WaitGroup) Count() int { return w.n }

// Once replaces sync.Once.
type Once struct {
	o     sync.Once
	state int // 0 new, 1 running, 2 done
}

func (o *Once) Do(f func()) {
	x := X
	if x == nil {
		o.o.Do(func() { f(); o.state = 2 })
		return
	}
	if x.aborting {
		if o.state == 0 {
			o.state = 2
			f()
		}
		return
	}
	x.point("once", func() bool { return o.state != 1 })
	if o.state == 2 {
		return
	}
	o.state = 1
	defer func() { o.state = 2 }()
	f()
}

// Pool replaces sync.Pool with a deterministic LIFO.
type Pool struct {
	New   func() interface{}
	mu    sync.Mutex
	items []interface{}
}

func (p *Pool) Get() interface{} {
	p.mu.Lock()
	if n := len(p.items); n > 0 {
		v := p.items[n-1]
		p.items = p.items[:n-1]
		p.mu.Unlock()
		return v
	}
	p.mu.Unlock()
	if p.New != nil {
		return p.New()
	}
	return nil
}

func (p *Pool) Put(v interface{}) {
	p.mu.Lock()
	if len(p.items) < 1024 {
		p.items = append(p.items, v)
	}
	p.mu.Unlock()
}

// Reset empties the pool (between executions).
func (p *Pool) Reset() {
	p.mu.Lock()
	p.items = nil
	p.mu.Unlock()
}

// Value replaces atomic.Value.
type Value struct {
	v atomic.Value
}

func (v *Value) Load() interface{} {
	atomicPoint("Value.Load", unsafe.Pointer(v))
	return v.v.Load()
}

func (v *Value) Store(val interface{}) {
	atomicPoint("Value.Store", unsafe.Pointer(v))
	v.v.Store(val)
}

// ---------------------------------------------------------------------------------------------
// atomics

// AtomicOp describes one executed atomic / shared-memory operation (for harness monitors).
type AtomicOp struct {
	Kind   string // load, store, add, cas, ld, st
	Addr   unsafe.Pointer
	Old    uint64
	New    uint64
	Ok     bool
	Thread int
}

// OnAtomic installs a monitor called after every atomic / Ld / St operation.
func OnAtomic(f func(op AtomicOp)) {
	if X != nil {
		X.atomicFn = f
	}
}

// quietAddr: counters that are never read by the logic are not scheduling points (rule A11).
var quietLo, quietHi uintptr

// SetQuietRange declares an address range whose atomics are not scheduling points.
func SetQuietRange(lo, hi uintptr) { quietLo, quietHi = lo, hi }

func atomicPoint(what string, p unsafe.Pointer) {
	x := X
	if x == nil {
		return
	}
	if x.aborting {
		return // unwinding: perform the operation, never block
	}
	x.point(what, nil)
}

// Trace, when set, receives one line per executed shared-memory operation (replay diagnostics).
var Trace func(line string)

func (x *Exec) note(kind string, p unsafe.Pointer, old, nw uint64, ok bool) {
	if Trace != nil && x.cur != nil {
		Trace(fmt.Sprintf("t%d(%s) %s %p old=%d new=%d ok=%v", x.cur.ID, x.cur.Name, kind, p, old, nw, ok))
	}
	if x.cur != nil {
		v := nw
		if kind == "cas" {
			v = 0
			if ok {
				v = 1
			}
		}
		if kind != "store" && kind != "st" {
			x.cur.rh = mix(x.cur.rh, v)
		}
	}
	if x.atomicFn != nil && !x.aborting {
		id := -1
		if x.cur != nil {
			id = x.cur.ID
		}
		x.atomicFn(AtomicOp{Kind: kind, Addr: p, Old: old, New: nw, Ok: ok, Thread: id})
	}
}

func LoadUint32(p *uint32) uint32 {
	atomicPoint("LoadUint32", unsafe.Pointer(p))
	v := atomic.LoadUint32(p)
	if X != nil {
		X.note("load", unsafe.Pointer(p), uint64(v), uint64(v), true)
	}
	return v
}
func LoadInt32(p *int32) int32 {
	atomicPoint("LoadInt32", unsafe.Pointer(p))
	v := atomic.LoadInt32(p)
	if X != nil {
		X.note("load", unsafe.Pointer(p), uint64(uint32(v)), uint64(uint32(v)), true)
	}
	return v
}
func LoadInt64(p *int64) int64 {
	atomicPoint("LoadInt64", unsafe.Pointer(p))
	v := atomic.LoadInt64(p)
	if X != nil {
		X.note("load", unsafe.Pointer(p), uint64(v), uint64(v), true)
	}
	return v
}
func LoadUint64(p *uint64) uint64 {
	atomicPoint("LoadUint64", unsafe.Pointer(p))
	v := atomic.LoadUint64(p)
	if X != nil {
		X.note("load", unsafe.Pointer(p), v, v, true)
	}
	return v
}
func LoadPointer(p *unsafe.Pointer) unsafe.Pointer {
	atomicPoint("LoadPointer", unsafe.Pointer(p))
	return atomic.LoadPointer(p)
}
func StorePointer(p *unsafe.Pointer, v unsafe.Pointer) {
	atomicPoint("StorePointer", unsafe.Pointer(p))
	atomic.StorePointer(p, v)
}
func StoreUint32(p *uint32, v uint32) {
	atomicPoint("StoreUint32", unsafe.Pointer(p))
	old := *p
	atomic.StoreUint32(p, v)
	if X != nil {
		X.note("store", unsafe.Pointer(p), uint64(old), uint64(v), true)
	}
}
func StoreInt32(p *int32, v int32) {
	atomicPoint("StoreInt32", unsafe.Pointer(p))
	old := *p
	atomic.StoreInt32(p, v)
	if X != nil {
		X.note("store", unsafe.Pointer(p), uint64(uint32(old)), uint64(uint32(v)), true)
	}
}
func StoreInt64(p *int64, v int64) {
	atomicPoint("StoreInt64", unsafe.Pointer(p))
	old := *p
	atomic.StoreInt64(p, v)
	if X != nil {
		X.note("store", unsafe.Pointer(p), uint64(old), uint64(v), true)
	}
}
func StoreUint64(p *uint64, v uint64) {
	atomicPoint("StoreUint64", unsafe.Pointer(p))
	old := *p
	atomic.StoreUint64(p, v)
	if X != nil {
		X.note("store", unsafe.Pointer(p), old, v, true)
	}
}
func AddInt32(p *int32, d int32) int32 {
	atomicPoint("AddInt32", unsafe.Pointer(p))
	v := atomic.AddInt32(p, d)
	if X != nil {
		X.note("add", unsafe.Pointer(p), uint64(uint32(v-d)), uint64(uint32(v)), true)
	}
	return v
}
func AddUint32(p *uint32, d uint32) uint32 {
	atomicPoint("AddUint32", unsafe.Pointer(p))
	v := atomic.AddUint32(p, d)
	if X != nil {
		X.note("add", unsafe.Pointer(p), uint64(v-d), uint64(v), true)
	}
	return v
}
func AddInt64(p *int64, d int64) int64 {
	atomicPoint("AddInt64", unsafe.Pointer(p))
	v := atomic.AddInt64(p, d)
	if X != nil {
		X.note("add", unsafe.Pointer(p), uint64(v-d), uint64(v), true)
	}
	return v
}

// AddUint64 on an address inside the quiet range (statistics counters) is not a scheduling point.
func AddUint64(p *uint64, d uint64) uint64 {
	a := uintptr(unsafe.Pointer(p))
	if X != nil && !isStat(a) {
		atomicPoint("AddUint64", unsafe.Pointer(p))
	}
	return atomic.AddUint64(p, d)
}

// statRanges are registered by the instrumented package for its stats structs; since stats live
// inside each Session, the instrumenter instead marks AddUint64 on stats fields with AddStat.
func isStat(a uintptr) bool { return quietLo != 0 && a >= quietLo && a < quietHi }

// AddStat is a monotone statistics counter: never a scheduling point (rule A11).
func AddStat(p *uint64, d uint64) uint64 { return atomic.AddUint64(p, d) }

// LoadStat reads a statistics counter without a scheduling point.
func LoadStat(p *uint64) uint64 { return atomic.LoadUint64(p) }

func CompareAndSwapUint32(p *uint32, old, nw uint32) bool {
	atomicPoint("CasUint32", unsafe.Pointer(p))
	ok := atomic.CompareAndSwapUint32(p, old, nw)
	if X != nil {
		X.note("cas", unsafe.Pointer(p), uint64(old), uint64(nw), ok)
	}
	return ok
}
func CompareAndSwapInt32(p *int32, old, nw int32) bool {
	atomicPoint("CasInt32", unsafe.Pointer(p))
	ok := atomic.CompareAndSwapInt32(p, old, nw)
	if X != nil {
		X.note("cas", unsafe.Pointer(p), uint64(uint32(old)), uint64(uint32(nw)), ok)
	}
	return ok
}
func CompareAndSwapInt64(p *int64, old, nw int64) bool {
	atomicPoint("CasInt64", unsafe.Pointer(p))
	ok := atomic.CompareAndSwapInt64(p, old, nw)
	if X != nil {
		X.note("cas", unsafe.Pointer(p), uint64(old), uint64(nw), ok)
	}
	return ok
}

// Integer is the set of types Ld/St fold into read histories.
type Integer interface {
	~int8 | ~uint8 | ~int16 | ~uint16 | ~int32 | ~uint32 | ~int64 | ~uint64 | ~int | ~uint | ~uintptr
}

// ShmPoints switches scheduling points at plain shared-memory accesses (Ld/St) on or off. Session-level
// scenarios switch them off: the free list and the queue are explored at that granularity on their own
// (C01, C02, C04), and atomics stay scheduling points.
var shmPointsOff bool

func ShmPoints(on bool) { shmPointsOff = !on; shmOnlyLo, shmOnlyHi = 0, 0 }

// ShmPointsOnly restricts the scheduling points of plain shared-memory accesses to one region (the memory under
// study); plain accesses elsewhere (another shared structure the scenario merely uses) are not points.
var shmOnlyLo, shmOnlyHi uintptr

func ShmPointsOnly(mem []byte) {
	shmPointsOff = false
	shmOnlyLo = uintptr(unsafe.Pointer(&mem[0]))
	shmOnlyHi = shmOnlyLo + uintptr(len(mem))
}

func shmSkip(p unsafe.Pointer) bool {
	return shmPointsOff || (shmOnlyHi != 0 && (uintptr(p) < shmOnlyLo || uintptr(p) >= shmOnlyHi))
}

// Ld is a plain load from shared memory: a scheduling point, then the load (rule A6).
func Ld[T Integer](p *T) T {
	x := X
	if x == nil {
		return *p
	}
	if shmSkip(unsafe.Pointer(p)) {
		return *p
	}
	if !x.aborting {
		x.point("ld", nil)
	}
	v := *p
	x.note("ld", unsafe.Pointer(p), uint64(v), uint64(v), true)
	return v
}

// St is a plain store to shared memory: a scheduling point, then the store.
func St[T Integer](p *T, v T) {
	x := X
	if x == nil || shmSkip(unsafe.Pointer(p)) {
		*p = v
		return
	}
	if !x.aborting {
		x.point("st", nil)
	}
	old := *p
	*p = v
	x.note("st", unsafe.Pointer(p), uint64(old), uint64(v), true)
}

// RetryBound lets a harness shrink a literal retry bound (rule A7); default is the literal.
var retryBound int

// SetRetryBound overrides literal retry bounds (0 = use the literal).
func SetRetryBound(n int) { retryBound = n }

func RetryBound(lit int) int {
	if retryBound > 0 {
		return retryBound
	}
	return lit
}
