package vrt

import (
	"net"
	"sort"
	"unsafe"
	"os"

	"golang.org/x/sys/unix"
)

// FdReadable reports whether fd is readable or hung up (zero-timeout poll).
func FdReadable(fd int) bool {
	pfd := []unix.PollFd{{Fd: int32(fd), Events: unix.POLLIN | unix.POLLRDHUP}}
	for {
		n, err := unix.Poll(pfd, 0)
		if err == unix.EINTR {
			continue
		}
		if err != nil {
			return true // let the caller's syscall report the error
		}
		return n > 0
	}
}

// FdWait parks the thread until fd is readable / hung up.
func FdWait(fd int) {
	x := X
	if x == nil || x.aborting {
		return
	}
	x.point("fdwait", func() bool { return FdReadable(fd) })
}

// SysRead replaces the blocking syscall.Read of block_io.go (rule A9).
func SysRead(fd int, p []byte) (int, error) {
	if X != nil {
		if X.aborting {
			if !FdReadable(fd) {
				return 0, unix.ECANCELED
			}
		} else {
			FdWait(fd)
		}
	}
	return unix.Read(fd, p)
}

// SysRecvmsg replaces the blocking syscall.Recvmsg of block_io.go.
func SysRecvmsg(fd int, p, oob []byte, flags int) (n, oobn int, recvflags int, from unix.Sockaddr, err error) {
	if X != nil {
		if X.aborting {
			if !FdReadable(fd) {
				return 0, 0, 0, nil, unix.ECANCELED
			}
		} else {
			FdWait(fd)
		}
	}
	return unix.Recvmsg(fd, p, oob, flags)
}

// Munmap under the scheduler makes the region inaccessible (a later access is a recoverable fault attributed
// to the schedule that caused it) and really unmaps it when the execution is torn down (rule A8).
func Munmap(b []byte) error {
	x := X
	if x == nil {
		return unix.Munmap(b)
	}
	if len(b) == 0 {
		return unix.EINVAL
	}
	if err := unix.Mprotect(b, unix.PROT_NONE); err != nil {
		return err
	}
	if x.unmapped == nil {
		x.unmapped = map[*byte]bool{}
	}
	x.unmapped[&b[0]] = true
	if x.unmappedLen == nil {
		x.unmappedLen = map[uintptr]int{}
	}
	x.unmappedLen[uintptr(unsafe.Pointer(&b[0]))] = len(b)
	if x.unmappedStep == nil {
		x.unmappedStep = map[uintptr]int{}
	}
	x.unmappedStep[uintptr(unsafe.Pointer(&b[0]))] = x.nsteps
	x.cleanup = append(x.cleanup, func() { unix.Munmap(b) })
	return nil
}

// WasUnmapped reports whether the code under test already unmapped this region in the current execution.
func WasUnmapped(b []byte) bool {
	x := X
	if x == nil {
		x = cleaning
	}
	return x != nil && len(b) > 0 && x.unmapped[&b[0]]
}

type lstState struct {
	f      *os.File
	fd     int
	closed bool
}

var listeners = map[net.Listener]*lstState{}

func lstOf(l net.Listener) *lstState {
	st := listeners[l]
	if st == nil {
		st = &lstState{}
		type filer interface{ File() (*os.File, error) }
		if fl, ok := l.(filer); ok {
			if f, err := fl.File(); err == nil {
				st.f = f
				st.fd = int(f.Fd())
				if X != nil {
					// closed through the objects (never only by descriptor number: see TrackFile)
					X.cleanup = append(X.cleanup, func() { f.Close(); l.Close(); delete(listeners, l) })
				}
			}
		}
		listeners[l] = st
	}
	return st
}

// Accept replaces l.Accept() for a net.Listener in the code under test: it parks the thread until a connection is
// pending or the listener was closed, then calls the real Accept, which cannot block any more.
func Accept(l net.Listener) (net.Conn, error) {
	x := X
	if x != nil && !x.aborting {
		st := lstOf(l)
		if st.f != nil {
			fd := st.fd
			x.point("accept", func() bool { return st.closed || FdReadable(fd) })
		}
	}
	return l.Accept()
}

// DialTimeout replaces net.DialTimeout in the code under test (see the instrumenter's rule): the limit given by the
// code is a duration of the virtual clock; the real connect gets a minute.
func DialTimeout(network, address string, d Duration) (net.Conn, error) {
	if X == nil {
		return net.DialTimeout(network, address, d)
	}
	return net.DialTimeout(network, address, 60*Second)
}

// CloseListener replaces l.Close() for a net.Listener in the code under test.
func CloseListener(l net.Listener) error {
	if X != nil {
		lstOf(l).closed = true
	}
	return l.Close()
}

// TrackFile remembers an *os.File created by the code under test so that the harness can close it when the
// execution is torn down (Close is idempotent; an unclosed file would be closed by its finalizer at an arbitrary
// later time, possibly after its descriptor number was reused by a later execution).
func TrackFile(f *os.File, err error) (*os.File, error) {
	x := X
	if x != nil && f != nil {
		x.cleanup = append(x.cleanup, func() { f.Close() })
		NoteFdOwner(int(f.Fd()), curProc())
		x.files = append(x.files, trackedFile{f, curProc()})
	}
	return f, err
}

type trackedFile struct {
	f    *os.File
	proc int
}

func curProc() int {
	if X != nil && X.cur != nil {
		return X.cur.Proc
	}
	return 0
}

// NoteFdOwner records which "process" (thread tag) a descriptor belongs to. Descriptor numbers are reused, so the
// latest note wins.
func NoteFdOwner(fd, proc int) {
	x := X
	if x == nil || fd < 0 {
		return
	}
	if x.fdOwner == nil {
		x.fdOwner = map[int]int{}
	}
	x.fdOwner[fd] = proc
}

// FdOwner returns the recorded owner of a descriptor (0 = unknown / harness).
func FdOwner(fd int) int {
	x := X
	if x == nil {
		x = cleaning
	}
	if x == nil {
		return 0
	}
	return x.fdOwner[fd]
}

// TrackedFiles lists the *os.File objects the given process obtained through tracked calls.
func TrackedFiles(proc int) []*os.File {
	x := X
	if x == nil {
		return nil
	}
	var out []*os.File
	for _, t := range x.files {
		if t.proc == proc {
			out = append(out, t.f)
		}
	}
	return out
}

// TrackFd wraps a call that returns a new descriptor (memfd_create).
func TrackFd(fd int, err error) (int, error) {
	if err == nil {
		NoteFdOwner(fd, curProc())
	}
	return fd, err
}

// TrackFds wraps a call that returns received descriptors (SCM_RIGHTS).
func TrackFds(fds []int, err error) ([]int, error) {
	if err == nil {
		for _, fd := range fds {
			NoteFdOwner(fd, curProc())
		}
	}
	return fds, err
}

// SwitchHook, when set, runs whenever another thread is about to run (per-"process" global state is swapped here).
var SwitchHook func(proc int)

// WriteClamp enables short-write answers for the event connection's write syscall: at every write of more than one
// byte the explorer may let the kernel take only half of it (one deviation). EAGAIN is never faked: the real
// edge-triggered epoll would not report the socket writable again and the writer would hang for a reason that is
// not the code's.
var WriteClamp bool

// SyscallWrite replaces syscall.Syscall(SYS_WRITE, fd, ptr, n) in connEventHandler.write.
func SyscallWrite(trap, a1, a2, a3 uintptr) (r1, r2 uintptr, err unix.Errno) {
	x := X
	if x != nil && !x.aborting {
		x.point("write", nil)
		if WriteClamp && a3 > 1 {
			if Choose(2, 1) == 1 {
				a3 = a3 / 2
			}
		}
	}
	return unix.Syscall(trap, a1, a2, a3)
}

// PtrOrder gives pointer-typed map keys a deterministic rank (set by the harness: a session by its descriptor, a
// stream by its id, ...). Keys without a rank keep Go's order among themselves.
var PtrOrder func(p interface{}) (uint64, bool)

// SortedKeys returns the keys of a map in a deterministic order (rule A10).
func SortedKeys[K comparable, V any](m map[K]V) []K {
	keys := make([]K, 0, len(m))
	for k := range m {
		keys = append(keys, k)
	}
	rank := func(k K) (uint64, string, int) {
		switch v := any(k).(type) {
		case int:
			return uint64(v), "", 0
		case int32:
			return uint64(v), "", 0
		case int64:
			return uint64(v), "", 0
		case uint:
			return uint64(v), "", 0
		case uint32:
			return uint64(v), "", 0
		case uint64:
			return v, "", 0
		case string:
			return 0, v, 1
		}
		if PtrOrder != nil {
			if r, ok := PtrOrder(any(k)); ok {
				return r, "", 0
			}
		}
		return 0, "", 2
	}
	sort.SliceStable(keys, func(i, j int) bool {
		a, as, ak := rank(keys[i])
		b, bs, bk := rank(keys[j])
		if ak != bk {
			return ak < bk
		}
		if ak == 1 {
			return as < bs
		}
		if ak == 2 {
			return false
		}
		return a < b
	})
	return keys
}
