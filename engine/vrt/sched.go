// Package vrt is the controlled runtime of the shmipc-go model checker.
//
// Exactly one registered thread runs at a time. Every synchronisation
// operation of the code under test (after instrumentation) calls into this
// package, which parks the calling thread on a private channel and lets the
// explorer decide which enabled thread continues. An execution is a pure
// function of its choice vector.
//
// When no execution is active (X == nil) every shim behaves like the real
// primitive, so package init functions and free-running harnesses work.
package vrt

import (
	"fmt"
	"runtime"
	"runtime/debug"
	"sort"
	"strings"
)

// X is the active execution (nil = pass-through mode).
var X *Exec

// cleaning is the execution whose cleanup functions are running (X is already nil then).
var cleaning *Exec

// Thread is one cooperative thread of an execution.
type Thread struct {
	ID     int
	Name   string
	Proc   int // process tag (0 = harness, 1 = process A, 2 = process B, ...)
	Daemon bool

	wake    chan struct{}
	exited  chan struct{}
	ready   func() bool
	idleTo  int64 // >=0: idle waiter with this virtual-time horizon; -1 otherwise
	done    bool
	fn      func()
	rh      uint64 // rolling hash of values read since the last op boundary
	npts    uint32 // points since the last op boundary
	what    string // description of pending point (debug)
	waitObj uintptr
	killed     bool
	lazy       bool
	born       int // scheduling step at which the thread was created
	wasEnabled bool  // enabled at the previous scheduling step
	stamp      int64 // step at which the thread last became enabled
}

// Step is one recorded decision.
type Step struct {
	N       int    // number of options
	C       int    // chosen option
	Kind    uint8  // 0 = scheduling, 1 = environment
	AltCost int    // cost of taking a non-default option here
	Budget  int    // budget remaining before this step
	Key     uint64 // state key (0 = none)
	Fresh   bool   // key was new (this step owns the expansion of its alternatives)
}

// Failure describes a violated oracle, panic, deadlock or divergence.
type Failure struct {
	Kind    string `json:"kind"` // oracle | panic | deadlock | diverge | horizon
	Sig     string `json:"sig"`  // harness-supplied signature for classification
	Msg     string `json:"msg"`
	Choices []int  `json:"choices"`
	Steps   int    `json:"steps"`
	Stack   string `json:"stack,omitempty"`
	Threads string `json:"threads,omitempty"`
	Params  interface{} `json:"params,omitempty"` // sequential checks: the failing case itself
}

// Exec is one execution.
type Exec struct {
	threads  []*Thread
	cur      *Thread
	prefix   []int
	Steps    []Step
	aborting bool
	fin      chan struct{}
	finOnce  bool
	Fail     *Failure
	Pruned   bool
	Horizon  bool
	budget   int
	opts     *Options
	ex       *Explorer

	clock  int64
	timers []*vtimer
	tseq   int64

	keyFn    func() uint64
	atomicFn func(op AtomicOp)
	outcome  []string
	counts   map[string]int
	cleanup  []func()
	nsteps   int
	noSwitch int // >0: scheduling points do not yield (atomic section)
	vals     map[string]interface{}
	racyT    bool
	quiet    bool // setup phase: scheduling is deterministic (default choice) and offers no alternatives
	aborter  *Thread
	unmapped map[*byte]bool
	unmappedLen map[uintptr]int
	unmappedStep map[uintptr]int
	fdOwner  map[int]int
	files    []trackedFile
}

const epoch0 = int64(1_700_000_000) * 1e9

type abortSentinel struct{}

// Cur returns the running thread (nil in pass-through mode).
func Cur() *Thread {
	if X == nil {
		return nil
	}
	return X.cur
}

// Active reports whether an execution is running and not being torn down.
func Active() bool { return X != nil && !X.aborting }

// Go is what instrumented `go` statements call: threads spawned by the code under test (send loops, watchers,
// callbacks) are daemons — they do not keep an execution alive. In pass-through mode it is a plain goroutine.
func Go(f func()) *Thread {
	t := GoNamed("", f)
	if t != nil {
		t.Daemon = true
	}
	return t
}

// GoDaemon starts a thread that does not keep the execution alive.
func GoDaemon(name string, f func()) *Thread {
	t := GoNamed(name, f)
	if t != nil {
		t.Daemon = true
	}
	return t
}

// GoProc starts a non-daemon thread with an explicit process tag.
func GoProc(name string, proc int, f func()) *Thread {
	t := GoNamed(name, f)
	if t != nil {
		t.Proc = proc
	}
	return t
}

// GoLazy starts a non-daemon thread whose action may happen at any moment (a fault, a Close racing with traffic): it
// is lazy FROM ITS CREATION - by default it starts only when nothing else can run, and starting it earlier, at any
// scheduling step, is exactly one deviation. (A thread that calls AnyMoment as its first statement is lazy only from
// the moment it first runs, which by default is whenever the threads created before it block: taking it at a chosen
// step then costs two deviations - one to get it to AnyMoment, one to take it.)
func GoLazy(name string, proc int, f func()) *Thread {
	t := GoNamed(name, f, true)
	if t != nil {
		t.Proc = proc
	}
	return t
}

// GoNamed starts a new named thread.
func GoNamed(name string, f func(), lazy ...bool) *Thread {
	x := X
	if x == nil {
		go f()
		return nil
	}
	if x.aborting {
		return nil
	}
	t := &Thread{ID: len(x.threads), Name: name, fn: f, wake: make(chan struct{}, 1), exited: make(chan struct{}), idleTo: -1, born: x.nsteps}
	t.lazy = len(lazy) > 0 && lazy[0]
	if x.cur != nil {
		t.Proc = x.cur.Proc
	}
	x.threads = append(x.threads, t)
	x.spawn(t)
	return t
}

// SetDaemon marks / unmarks the thread as daemon.
func (t *Thread) SetDaemon(d bool) *Thread {
	if t != nil {
		t.Daemon = d
	}
	return t
}

// Done reports whether the thread has finished.
func (t *Thread) Done() bool { return t == nil || t.done }

func (x *Exec) spawn(t *Thread) {
	go func() {
		defer close(t.exited)
		<-t.wake
		t.lazy = false
		if x.aborting {
			return
		}
		// an access to memory the code under test already unmapped (vrt.Munmap => PROT_NONE) becomes a recoverable
		// panic of this thread, attributed to the schedule that caused it
		debug.SetPanicOnFault(true)
		normal := false
		defer func() {
			if normal {
				return
			}
			if r := recover(); r != nil {
				if _, ok := r.(abortSentinel); ok {
					return
				}
				if !x.aborting {
					sig := "panic"
					stack := trimStack(string(debug.Stack()))
					if ae, ok := r.(interface{ Addr() uintptr }); ok {
						if at, ok := x.unmappedAt(ae.Addr()); ok {
							if t.born > at {
								// a call that STARTED after the unmap (the thread did not even exist before): every later
								// call must fail with an error instead
								sig = "later-call-touches-unmapped@" + faultGroup(faultSite(stack))
							} else {
								// root cause: a thread was inside an operation when the teardown unmapped the memory
								sig = "known:use-after-unmap@" + faultGroup(faultSite(stack))
							}
						}
					}
					x.setFail(&Failure{Kind: "panic", Sig: sig, Msg: fmt.Sprintf("panic in thread %d(%s): %v", t.ID, t.Name, r), Stack: stack})
					x.beginAbort()
				}
			}
		}()
		t.fn()
		normal = true
		x.exit(t)
	}()
}

// faultSite names the innermost function of the code under test on a panic stack (after the panic frame).
func faultSite(stack string) string {
	lines := strings.Split(stack, "\n")
	seenPanic := false
	for _, l := range lines {
		if strings.HasPrefix(l, "panic(") {
			seenPanic = true
			continue
		}
		if !seenPanic || strings.HasPrefix(l, "\t") || strings.Contains(l, "/internal/vrt.") || strings.HasPrefix(l, "runtime.") {
			continue
		}
		fn := l
		if i := strings.LastIndex(fn, "/"); i >= 0 {
			fn = fn[i+1:]
		}
		if i := strings.Index(fn, "("); i > 0 && !strings.HasPrefix(fn[i:], "(*") {
			fn = fn[:i]
		} else if j := strings.LastIndex(fn, "("); j > 0 {
			fn = fn[:j]
		}
		return strings.TrimPrefix(fn, "shmipc-go.")
	}
	return "?"
}

// faultGroup coarsens the faulting function to the shared structure it belongs to: the known finding is "a thread
// is still inside an operation on the <queue | buffer> mapping when Session.Close's teardown unmaps it".
func faultGroup(fn string) string {
	l := strings.ToLower(fn)
	switch {
	case strings.Contains(l, "queue") || strings.Contains(l, "wakeuppeer"):
		return "queue"
	case strings.Contains(l, "buffer"):
		return "buffer"
	}
	return fn
}

// unmappedAt returns the scheduling step at which the region containing a was unmapped by the code under test.
func (x *Exec) unmappedAt(a uintptr) (int, bool) {
	for base, n := range x.unmappedLen {
		if a >= base && a < base+uintptr(n) {
			return x.unmappedStep[base], true
		}
	}
	return 0, false
}

func trimStack(s string) string {
	lines := strings.Split(s, "\n")
	if len(lines) > 60 {
		lines = lines[:60]
	}
	return strings.Join(lines, "\n")
}

func (x *Exec) setFail(f *Failure) {
	if x.Fail != nil {
		return
	}
	f.Choices = x.choices()
	f.Steps = len(x.Steps)
	f.Threads = x.threadDump()
	x.Fail = f
}

func (x *Exec) threadDump() string {
	var sb strings.Builder
	for _, t := range x.threads {
		st := "pending"
		if t.done {
			st = "done"
		} else if t == x.cur {
			st = "running"
		}
		fmt.Fprintf(&sb, "[t%d %s p%d %s %s]", t.ID, t.Name, t.Proc, st, t.what)
	}
	return sb.String()
}

func (x *Exec) choices() []int {
	c := make([]int, len(x.Steps))
	for i, s := range x.Steps {
		c[i] = s.C
	}
	return c
}

// beginAbort marks the execution as over; the reaper (Explorer.runOne) unwinds all threads.
func (x *Exec) beginAbort() {
	if !x.aborting {
		x.aborter = x.cur
	}
	x.aborting = true
	if !x.finOnce {
		x.finOnce = true
		close(x.fin)
	}
}

// Failf records an oracle violation and ends the execution.
func Failf(sig string, format string, args ...interface{}) {
	x := X
	if x == nil {
		panic(fmt.Sprintf("vrt.Failf outside execution: "+format, args...))
	}
	if x.aborting {
		runtime.Goexit()
	}
	x.setFail(&Failure{Kind: "oracle", Sig: sig, Msg: fmt.Sprintf(format, args...)})
	x.beginAbort()
	runtime.Goexit()
}

// Stop ends the execution early without failure (e.g. after a known-finding signature).
func Stop(outcome string) {
	x := X
	if x == nil {
		return
	}
	if x.aborting {
		runtime.Goexit()
	}
	x.outcome = append(x.outcome, outcome)
	x.beginAbort()
	runtime.Goexit()
}

// Outcome tags the execution's observable outcome (for non-vacuity statistics).
func Outcome(s string) {
	if X != nil {
		X.outcome = append(X.outcome, s)
	}
}

// Count increments a named counter (window hits etc.).
func Count(name string) {
	if X != nil {
		if X.counts == nil {
			X.counts = map[string]int{}
		}
		X.counts[name]++
	}
}

// SetKey installs the harness part of the state key. Enables state pruning.
func SetKey(f func() uint64) {
	if X != nil {
		X.keyFn = f
	}
}

// KillProc makes every thread of a "process" stop for good, as after SIGKILL: the threads are never scheduled again
// (they are unwound when the execution is torn down). The caller must belong to another process.
func KillProc(proc int) int {
	x := X
	if x == nil {
		return 0
	}
	n := 0
	for _, t := range x.threads {
		if t.Proc == proc && !t.done && t != x.cur {
			t.done = true
			t.killed = true
			n++
		}
	}
	return n
}

// Quiet switches the setup phase on/off: while on, scheduling takes the default choice and records no alternatives.
func Quiet(on bool) {
	if X != nil {
		X.quiet = on
	}
}

// RacyTimers switches racy-timer mode (an armed timer may fire as a costed alternative at any scheduling step).
func RacyTimers(on bool) {
	if X != nil {
		X.racyT = on
	}
}

// OnCleanup registers a function run after the execution is torn down.
func OnCleanup(f func()) {
	if X != nil {
		X.cleanup = append(X.cleanup, f)
	} else {
		f()
	}
}

// Put / Get attach per-execution values (used by harness shims).
func Put(k string, v interface{}) {
	if X != nil {
		if X.vals == nil {
			X.vals = map[string]interface{}{}
		}
		X.vals[k] = v
	}
}
func Get(k string) interface{} {
	if X != nil && X.vals != nil {
		return X.vals[k]
	}
	return nil
}

// OpBoundary resets the running thread's read history to the given summary of its local state.
func OpBoundary(summary uint64) {
	if X != nil && X.cur != nil {
		X.cur.rh = mix(summary, 0x9e3779b97f4a7c15)
		X.cur.npts = 0
	}
}

// Fold mixes a value the thread has observed into its read history.
func Fold(v uint64) {
	if X != nil && X.cur != nil {
		X.cur.rh = mix(X.cur.rh, v)
	}
}

func mix(h, v uint64) uint64 {
	h ^= v + 0x9e3779b97f4a7c15 + (h << 6) + (h >> 2)
	h *= 0xff51afd7ed558ccd
	h ^= h >> 33
	return h
}

// HashBytes hashes a byte slice (FNV-1a, 64 bit, with a final mix).
func HashBytes(h uint64, b []byte) uint64 {
	if h == 0 {
		h = 14695981039346656037
	}
	for _, c := range b {
		h ^= uint64(c)
		h *= 1099511628211
	}
	return mix(h, uint64(len(b)))
}

// Mix is exported for harness key functions.
func Mix(h, v uint64) uint64 { return mix(h, v) }

// Point is a scheduling point with an enabledness predicate (nil = always enabled).
func Point(what string, ready func() bool) {
	x := X
	if x == nil {
		return
	}
	x.point(what, ready)
}

// Yield is a plain scheduling point.
func Yield() {
	if X == nil {
		runtime.Gosched()
		return
	}
	X.point("yield", nil)
}

// NoSwitch runs f without yielding at scheduling points (harness-level atomic section).
func NoSwitch(f func()) {
	if X == nil {
		f()
		return
	}
	X.noSwitch++
	defer func() { X.noSwitch-- }()
	f()
}

func (x *Exec) point(what string, ready func() bool) {
	if x.aborting {
		runtime.Goexit()
	}
	me := x.cur
	if me == nil {
		panic("vrt: point outside a registered thread: " + what)
	}
	if x.noSwitch > 0 {
		if ready != nil && !ready() {
			x.setFail(&Failure{Kind: "deadlock", Sig: "deadlock", Msg: "blocking point inside NoSwitch section: " + what})
			x.beginAbort()
			runtime.Goexit()
		}
		return
	}
	me.ready = ready
	me.what = what
	if Trace != nil {
		me.what = what + "@" + callerInfo()
	}
	me.npts++
	x.schedule(me)
	me.ready = nil
	me.what = ""
}

// WaitIdle parks the caller until no other thread is enabled, letting virtual time advance by at most maxAdvance.
func WaitIdle(maxAdvance Duration) {
	x := X
	if x == nil {
		return
	}
	if x.aborting {
		runtime.Goexit()
	}
	me := x.cur
	me.idleTo = x.clock + int64(maxAdvance)
	me.what = "waitidle"
	x.schedule(me)
	me.idleTo = -1
	me.what = ""
}

// WaitThreads parks the caller until all given threads are done.
func WaitThreads(ts ...*Thread) {
	if X == nil {
		return
	}
	Point("join", func() bool {
		for _, t := range ts {
			if t != nil && !t.done {
				return false
			}
		}
		return true
	})
}

func (x *Exec) exit(t *Thread) {
	t.done = true
	if x.aborting {
		return
	}
	all := true
	for _, o := range x.threads {
		if !o.done && !o.Daemon {
			all = false
			break
		}
	}
	if all {
		x.beginAbort()
		return
	}
	x.schedule(nil)
}

// enabledNormal lists enabled non-idle threads in the default scheduler's order of preference: the yielding thread
// first (no preemption), then the others, most recently woken first (a thread that has just become runnable because
// of what the running thread did - a wakee - is what a real scheduler tends to run next), ties by ascending id.
func (x *Exec) enabledNormal(me *Thread, buf []*Thread) []*Thread {
	buf = buf[:0]
	if me != nil && me.idleTo < 0 && !me.lazy && (me.ready == nil || me.ready()) {
		buf = append(buf, me)
	}
	first := len(buf)
	for _, t := range x.threads {
		if (t == me && !me.lazy) || t.done || t.idleTo >= 0 {
			continue
		}
		if t.ready == nil || t.ready() {
			if !t.wasEnabled {
				t.wasEnabled = true
				t.stamp = int64(x.nsteps)
			}
			buf = append(buf, t)
		} else {
			t.wasEnabled = false
		}
	}
	// insertion sort of the tail by (stamp desc, id asc); the lists are tiny
	before := func(a, b *Thread) bool {
		if a.lazy != b.lazy {
			return !a.lazy // lazy threads (faults, closers "at any moment") come last
		}
		if a.stamp != b.stamp {
			return a.stamp > b.stamp
		}
		return a.ID < b.ID
	}
	for i := first + 1; i < len(buf); i++ {
		for j := i; j > first && before(buf[j], buf[j-1]); j-- {
			buf[j], buf[j-1] = buf[j-1], buf[j]
		}
	}
	return buf
}

// AnyMoment marks the calling thread as one whose next action may happen at any moment (a fault, a Close racing with
// traffic): by default it runs only when nothing else can run, and taking it earlier, at any scheduling step, is
// exactly one deviation. Returns at the chosen moment.
func AnyMoment() {
	x := X
	if x == nil || x.cur == nil {
		return
	}
	x.cur.lazy = true
	x.point("any-moment", nil)
	x.cur.lazy = false
}

// schedule picks the next thread. me == nil means the caller is exiting.
func (x *Exec) schedule(me *Thread) {
	var arr [16]*Thread
	for {
		x.nsteps++
		if x.opts.StepLimit > 0 && x.nsteps > x.opts.StepLimit {
			x.Horizon = true
			if x.opts.FailOnHorizon {
				x.setFail(&Failure{Kind: "horizon", Sig: "horizon", Msg: fmt.Sprintf("execution still running after %d scheduling steps (virtual time %d ms): some call keeps spinning or waiting", x.opts.StepLimit, (x.clock-epoch0)/1e6)})
			}
			x.beginAbort()
			if me != nil {
				runtime.Goexit()
			}
			return
		}
		en := x.enabledNormal(me, arr[:0])
		meEnabled := len(en) > 0 && en[0] == me
		timerOpt := false
		if len(en) == 0 {
			// nothing runnable: timers within the idle waiters' horizon fire first
			limit := int64(-1)
			idle := false
			for _, t := range x.threads {
				if !t.done && t.idleTo >= 0 {
					if !idle || t.idleTo < limit {
						limit = t.idleTo
					}
					idle = true
				}
			}
			if len(x.timers) > 0 && (!idle || x.timers[0].when <= limit) {
				x.fireNext()
				continue
			}
			if idle {
				if me != nil && me.idleTo >= 0 {
					en = append(en, me)
					meEnabled = true
				}
				for _, t := range x.threads {
					if t != me && !t.done && t.idleTo >= 0 {
						en = append(en, t)
					}
				}
			}
			if len(en) == 0 {
				// deadlock: some non-daemon thread cannot finish
				x.setFail(&Failure{Kind: "deadlock", Sig: "deadlock", Msg: "no enabled thread"})
				x.beginAbort()
				if me != nil {
					runtime.Goexit()
				}
				return
			}
		} else if x.racyT && len(x.timers) > 0 {
			timerOpt = true
		}
		n := len(en)
		if timerOpt {
			n++
		}
		if x.quiet {
			// setup phase: always the default thread, no alternatives, no step recorded
			t := en[0]
			if t == me {
				return
			}
			x.switchTo(t)
			t.wake <- struct{}{}
			if me == nil {
				return
			}
			<-me.wake
			if x.aborting {
				runtime.Goexit()
			}
			return
		}
		// deviation (delay) bounding: every non-default choice costs one deviation, whether it preempts the running
		// thread or picks another than the round-robin successor when the running thread blocks or exits
		st := Step{N: n, Budget: x.budget, AltCost: 1}
		pos := len(x.Steps)
		if x.keyFn != nil && n > 0 {
			st.Key = x.stateKey(me, meEnabled)
			if pos >= len(x.prefix) {
				if x.ex.visit(st.Key, x.budget) {
					st.Fresh = true
				} else {
					x.Pruned = true
					x.Steps = append(x.Steps, st)
					x.beginAbort()
					if me != nil {
						runtime.Goexit()
					}
					return
				}
			}
		}
		c := 0
		if pos < len(x.prefix) {
			c = x.prefix[pos]
			if c < 0 || c >= n {
				x.setFail(&Failure{Kind: "diverge", Sig: "diverge", Msg: fmt.Sprintf("replay divergence at step %d: choice %d of %d options", pos, c, n)})
				x.beginAbort()
				if me != nil {
					runtime.Goexit()
				}
				return
			}
		}
		st.C = c
		if c != 0 {
			x.budget -= st.AltCost
		}
		x.Steps = append(x.Steps, st)
		if timerOpt && c == n-1 {
			x.fireNext()
			continue
		}
		t := en[c]
		if t.lazy {
			// vacuity watch: how often a fault / closer thread was interposed by a deviation, how often it merely ran last
			if x.counts == nil {
				x.counts = map[string]int{}
			}
			if c != 0 {
				x.counts["lazy-interposed:"+t.Name]++
			} else {
				x.counts["lazy-ran-last:"+t.Name]++
			}
		}
		if Trace != nil {
			Trace(fmt.Sprintf("step %d: %d enabled, choice %d -> t%d(%s) %s  clock=%dms", pos, n, c, t.ID, t.Name, t.what, (x.clock-epoch0)/1e6))
		}
		if t == me {
			return
		}
		x.switchTo(t)
		t.wake <- struct{}{}
		if me == nil {
			return
		}
		<-me.wake
		if x.aborting {
			runtime.Goexit()
		}
		return
	}
}

// switchTo makes t the running thread; per-process global state is swapped by the hook.
func (x *Exec) switchTo(t *Thread) {
	if SwitchHook != nil && (x.cur == nil || x.cur.Proc != t.Proc) {
		SwitchHook(t.Proc)
	}
	x.cur = t
}

// callerInfo names the first frames outside this package (trace mode only).
func callerInfo() string {
	pcs := make([]uintptr, 24)
	n := runtime.Callers(3, pcs)
	fr := runtime.CallersFrames(pcs[:n])
	var out []string
	for {
		f, more := fr.Next()
		if !strings.Contains(f.Function, "/internal/vrt.") && f.Function != "" {
			fn := f.Function[strings.LastIndex(f.Function, "/")+1:]
			out = append(out, fmt.Sprintf("%s:%d", strings.TrimPrefix(fn, "shmipc-go."), f.Line))
			if len(out) >= 3 {
				break
			}
		}
		if !more {
			break
		}
	}
	return strings.Join(out, "<")
}

func (x *Exec) stateKey(me *Thread, meEnabled bool) uint64 {
	h := x.keyFn()
	cur := uint64(0xfff)
	if me != nil {
		cur = uint64(me.ID)
	}
	h = mix(h, cur)
	for _, t := range x.threads {
		var s uint64
		switch {
		case t.done:
			s = 1
		default:
			s = 2
		}
		h = mix(h, s)
		if !t.done {
			h = mix(h, t.rh)
			h = mix(h, uint64(t.npts))
		}
	}
	h = mix(h, uint64(x.clock))
	if h == 0 {
		h = 1
	}
	return h
}

// Choose records an environment choice among n options; option 0 is the default ("no deviation").
func Choose(n int, cost int) int {
	x := X
	if x == nil || n <= 1 {
		return 0
	}
	if x.aborting {
		runtime.Goexit()
	}
	pos := len(x.Steps)
	st := Step{N: n, Kind: 1, AltCost: cost, Budget: x.budget}
	c := 0
	if pos < len(x.prefix) {
		c = x.prefix[pos]
		if c < 0 || c >= n {
			x.setFail(&Failure{Kind: "diverge", Sig: "diverge", Msg: fmt.Sprintf("replay divergence at env step %d: choice %d of %d options", pos, c, n)})
			x.beginAbort()
			runtime.Goexit()
		}
	}
	st.C = c
	if c != 0 {
		x.budget -= cost
	}
	x.Steps = append(x.Steps, st)
	if x.cur != nil {
		x.cur.rh = mix(x.cur.rh, uint64(c)+77)
	}
	return c
}

// ---------------------------------------------------------------------------------------------
// Explorer

// Options bound an exploration.
type Options struct {
	Bound      int   // maximal total deviation cost; <0 = unbounded
	StepLimit  int   // per-execution scheduling-step horizon (0 = 200000)
	MaxExecs   int64 // cap on executions (0 = none)
	DeadlineNs int64 // wall-clock cap in unix ns (0 = none)
	MaxFail    int   // stop after this many failures with distinct signatures (0 = 1)
	RacyTimers bool
	KeepGoing  func(f *Failure) bool // return true to continue exploring after this failure
	FailOnHorizon bool               // an execution that exceeds StepLimit is a failure (liveness checks)
	ShardI     int                   // this explorer expands only the level-1 subtrees with index % ShardN == ShardI
	ShardN     int                   // (0 or 1 = no sharding); every shard runs the root execution
}

// Result summarises an exploration.
type Result struct {
	Name        string         `json:"name"`
	Execs       int64          `json:"execs"`
	Transitions int64          `json:"transitions"`
	States      int64          `json:"states"`
	Pruned      int64          `json:"pruned"`
	Horizons    int64          `json:"horizons"`
	MaxDepth    int            `json:"max_depth"`
	Bound       int            `json:"bound"`
	Exhaustive  bool           `json:"exhaustive"`
	CapHit      string         `json:"cap_hit,omitempty"`
	Outcomes    map[string]int64 `json:"outcomes"`
	Counts      map[string]int64 `json:"counts"`
	Failures    []*Failure     `json:"failures,omitempty"`
	FailCount   map[string]int64 `json:"fail_count,omitempty"`
	Sample      []int          `json:"sample,omitempty"`
}

// Explorer runs the DFS.
type Explorer struct {
	opts    Options
	body    func()
	visited map[uint64]int8
	res     *Result
	stop    bool
	l1      int
}

func (e *Explorer) visit(k uint64, budget int) bool {
	b := int8(127)
	if e.opts.Bound >= 0 {
		if budget > 120 {
			budget = 120
		}
		b = int8(budget)
	}
	if old, ok := e.visited[k]; ok && old >= b {
		return false
	}
	if _, ok := e.visited[k]; !ok {
		e.res.States++
	}
	e.visited[k] = b
	return true
}

// Explore enumerates all executions of body within opts.
func Explore(name string, opts Options, body func()) *Result {
	if opts.StepLimit == 0 {
		opts.StepLimit = 200000
	}
	e := &Explorer{opts: opts, body: body, visited: map[uint64]int8{}}
	e.res = &Result{Name: name, Bound: opts.Bound, Outcomes: map[string]int64{}, Counts: map[string]int64{}, FailCount: map[string]int64{}, Exhaustive: true}
	e.dfs(nil)
	return e.res
}

// RunOnce runs a single execution with the given choice prefix (replay).
func RunOnce(opts Options, prefix []int, body func()) *Exec {
	if opts.StepLimit == 0 {
		opts.StepLimit = 200000
	}
	e := &Explorer{opts: opts, body: body, visited: map[uint64]int8{}}
	e.res = &Result{Outcomes: map[string]int64{}, Counts: map[string]int64{}, FailCount: map[string]int64{}}
	return e.runOne(prefix)
}

func (e *Explorer) runOne(prefix []int) *Exec {
	budget := e.opts.Bound
	if budget < 0 {
		budget = 1 << 30
	}
	x := &Exec{prefix: prefix, fin: make(chan struct{}), budget: budget, opts: &e.opts, ex: e, clock: epoch0, racyT: e.opts.RacyTimers}
	X = x
	t := &Thread{ID: 0, Name: "main", fn: e.body, wake: make(chan struct{}, 1), exited: make(chan struct{}), idleTo: -1}
	x.threads = append(x.threads, t)
	x.spawn(t)
	x.cur = t
	t.wake <- struct{}{}
	<-x.fin
	if x.aborter != nil {
		<-x.aborter.exited // the thread that ended the execution unwinds first, alone
	}
	// reap: unwind every thread, one at a time, in id order
	for i := 0; i < len(x.threads); i++ {
		th := x.threads[i]
		select {
		case <-th.exited:
			continue
		default:
		}
		select {
		case th.wake <- struct{}{}:
		default:
		}
		<-th.exited
	}
	X = nil
	cleaning = x
	for i := len(x.cleanup) - 1; i >= 0; i-- {
		x.cleanup[i]()
	}
	cleaning = nil
	return x
}

func (e *Explorer) account(x *Exec) {
	r := e.res
	r.Execs++
	r.Transitions += int64(len(x.Steps))
	if len(x.Steps) > r.MaxDepth {
		r.MaxDepth = len(x.Steps)
	}
	if x.Pruned {
		r.Pruned++
	}
	if x.Horizon {
		r.Horizons++
		r.Outcomes["<horizon>"]++
	}
	if len(x.outcome) > 0 && !x.Pruned {
		r.Outcomes[strings.Join(x.outcome, ";")]++
	}
	for k, v := range x.counts {
		r.Counts[k] += int64(v)
		r.Counts[k+"#execs"]++
	}
	if r.Sample == nil && !x.Pruned && x.Fail == nil {
		r.Sample = x.choices()
	}
	if x.Fail != nil {
		r.FailCount[x.Fail.Sig]++
		if r.FailCount[x.Fail.Sig] == 1 {
			r.Failures = append(r.Failures, x.Fail)
		}
		keep := false
		if e.opts.KeepGoing != nil && x.Fail.Kind != "diverge" {
			keep = e.opts.KeepGoing(x.Fail)
		}
		if !keep {
			e.stop = true
		}
	}
}

func (e *Explorer) capped() bool {
	if e.opts.MaxExecs > 0 && e.res.Execs >= e.opts.MaxExecs {
		e.res.Exhaustive = false
		e.res.CapHit = "max_execs"
		return true
	}
	if e.opts.DeadlineNs > 0 && e.res.Execs%64 == 0 && nowUnixNano() > e.opts.DeadlineNs {
		e.res.Exhaustive = false
		e.res.CapHit = "deadline"
		return true
	}
	return false
}

// dfs is iterative (explicit stack of prefixes) to keep memory flat.
func (e *Explorer) dfs(prefix []int) {
	type item struct{ prefix []int }
	stack := []item{{prefix}}
	for len(stack) > 0 && !e.stop {
		if e.capped() {
			return
		}
		it := stack[len(stack)-1]
		stack = stack[:len(stack)-1]
		x := e.runOne(it.prefix)
		e.account(x)
		if e.stop {
			return
		}
		useKeys := x.keyFn != nil
		ch := x.choices()
		// push alternatives deepest-last so that the DFS explores deepest first
		for i := len(it.prefix); i < len(x.Steps); i++ {
			s := x.Steps[i]
			if s.N <= 1 {
				continue
			}
			if useKeys && s.Kind == 0 && !s.Fresh {
				continue // state already expanded elsewhere (only happens for the pruned last step)
			}
			if s.AltCost > s.Budget {
				continue
			}
			for alt := s.N - 1; alt >= 1; alt-- {
				if len(it.prefix) == 0 && e.opts.ShardN > 1 {
					e.l1++
					if e.l1%e.opts.ShardN != e.opts.ShardI {
						continue
					}
				}
				p := make([]int, i+1)
				copy(p, ch[:i])
				p[i] = alt
				stack = append(stack, item{p})
			}
		}
	}
}

// SortInts is a tiny helper for harness key functions.
func SortInts(a []int) { sort.Ints(a) }
