#!/usr/bin/env python3
"""Regenerates /verif/MANIFEST.json from the table below (one entry per claimed property)."""
import json
ids = ["C%02d" % i for i in range(1, 21)]
TECH_A = "stateless model checking of the implementation: AST-instrumented real code under a controlled scheduler, exhaustive DFS over all interleavings at single shared-memory-access granularity with state-key pruning"
C = {}
C["C01"] = dict(
    text="all interleavings (single shared-memory access granularity, state-pruned, no preemption bound) of 2-3 threads running every canonical allocate/recycle program up to the tier's length on real bufferList.pop/push (creator + mapper view over one memory) and on bufferManager alloc/recycle with two size classes; ownership, placement, capacity and signature-intact oracles on every allocation/verification",
    note="sequentially consistent interleavings; bounds: <=3 threads, <=5 slots, programs <=6 ops; 64-bit state hashes; executions that match the recorded ABA root-cause signature (known finding D1) end at the stale CAS",
    technique=TECH_A, design="DESIGN.md section 4 C01")
C["C02"] = dict(
    text="same executions as C01 with the conservation oracles: free count + held <= capacity after every access to the free count; at quiescence (sequential drain) free count == capacity and the free chain visits every slot once and ends at tail, for both views and every class; failed allocations (empty, last slot, retry bound 3 and the real 200) restore the count; chains recycled through their shared-memory links",
    note="as C01",
    technique=TECH_A, design="DESIGN.md section 4 C02")
C["C04"] = dict(
    text="all interleavings at single shared-memory-access granularity of real queue.put/queue.pop (producer and consumer views over one memory) for every listed (capacity, producers, puts, pops, cursor base) scenario, state-pruned; every execution's call/return history checked for linearizability against a bounded FIFO with porcupine; occupancy invariant after every access",
    note="sequentially consistent interleavings only; bounds: capacity<=3, producers<=3, puts<=3; 64-bit state hashes",
    technique=TECH_A + " + porcupine linearizability oracle", design="DESIGN.md section 4 C04")
C["C05"] = dict(
    text="all interleavings (state-pruned; preemption bound 2-3 for the largest scenarios) of 1-3 producers closing 1-3 streams each (real Stream.close: enqueue, then real wakeUpPeer with its fast path and the real send() loop for the slow path) with a consumer running the real handlePolling (drain, markNotWorking re-check) once per delivered polling event; oracle in every quiescent end state: receive queue empty",
    note="the event connection is a recording stub (each written polling event is delivered exactly once, in any order relative to the other threads); SC interleavings; producers<=3",
    technique=TECH_A, design="DESIGN.md section 4 C05")
C["C03"] = dict(
    text="sequential bounded-exhaustive enumeration of the configuration grid (memory sizes 0..64KiB/1MiB incl. degenerate ones, start offsets, all ordered lists of 1-3 (size,percent) pairs from boundary menus with sizes <= memory size): real createBufferManager either errors or yields classes whose slots are inside the mapping, behind their headers and pairwise disjoint; real mappingBufferManager on the same bytes reconstructs identical classes, capacities, offsets and cursors; patterns written through one view are read through the other; alloc-all/recycle-all restores the chain; queue pairs of every capacity are cross-wired; both real back-ends (/dev/shm file, memfd) with a second mapping as the peer",
    note="no panic is tolerated (recovered and reported); the alloc/recycle round trip is skipped for configurations with duplicate class sizes and for classes with more than 4096 slots (layout arithmetic is still checked for every slot)",
    technique="explicit enumeration of all configurations of a bounded grid on the real layout code with a reference interval/aliasing oracle", design="DESIGN.md section 4 C03")
TECH_S = "explicit-state breadth-first search over operation histories on the real implementation (fresh instance + replay per transition), states deduplicated by a canonical abstraction, every step compared with a reference model written in Go"
C["C06"] = dict(
    text="all histories up to the tier's depth over the writer alphabet {WriteBytes, Reserve, WriteByte, WriteString, Write, Flush} x sizes {1,c-1,c,c+1,2c+1,>largest class} and the reader alphabet {ReadBytes, Peek, Discard, ReadByte, ReadString, Read, ReleasePreviousRead, ReleaseReadAndReuse, adversary} x the same sizes plus 0, on real streams of two minimal sessions (real Flush incl. socket fallback via the real send loop, real handleEvents/handlePolling/handleFallbackData, real readMore/moveTo), for 3 slice-size configurations x 3 exhaustion patterns, one- and two-directional; byte-queue reference model (every returned byte, Len of reader and writer, Peek consumes nothing); every new state is completed twice (drain+release+close, and close-only) and must leave nothing allocated",
    note="sequential (no concurrency; blocking reads are C11); control connection is a recording stub that delivers every written event to the peer's real handleEvents right after the flush; depth 4/3 quick, 5/4 thorough",
    technique=TECH_S, design="DESIGN.md section 4 C06")
C["C08"] = dict(
    text="inside the same search as C06: every slice returned by ReadBytes/Peek is remembered with its expected bytes and re-compared after every later operation (further reads, writes in both directions, an adversary that allocates every free buffer, fills it with 0xEE and recycles it) until ReleasePreviousRead / ReleaseReadAndReuse / Close; after release (drain+release+close and close-only completions of every state) no buffer remains allocated",
    note="as C06",
    technique=TECH_S, design="DESIGN.md section 4 C08")
C["C13"] = dict(
    text="established phase: for each publicly constructible session kind (client owned by a SessionManager, server owned by a Listener, server from Server()) every single event of the grammar (12 types x 4 versions x magic x 14 length-field values x 9 payloads), all pairs and selected/all triples of a 13-event reduced set, each under every splitting with <=1 (quick) / <=2 (thorough) cut points, delivered through the real connEventHandler.onReadReady/commitRead on a socketpair and the real handleEvents and handlers, posted lambdas included; oracles: no panic, invalid header closes the session with an error, effect identical for every splitting. Handshake phase: real newSession (server role; client role with memfd) in child processes against a scripted raw peer playing every handshake event / metadata body / length combination; oracle: newSession returns, the process survives",
    note="handlers and lambdas run on the harness goroutine under recover; handshake cases run in child processes and a dead child is attributed to the case it was running; shared-memory contents are not part of the input alphabet (only control-connection bytes)",
    technique="explicit enumeration of an event grammar and of all splittings up to a cut bound on the real parsing code (fault/input enumeration with a differential unsplit-vs-split oracle)", design="DESIGN.md section 4 C13")
TECH_B = "stateless model checking of the implementation at session level: two real sessions over a real socketpair (real handshake, mmap, epoll registration, connEventHandler) under the controlled scheduler with virtual time; exhaustive DFS over all schedules within a deviation (delay) bound"
NOTE_B = "deviation bound: every non-default scheduling choice (preemption, or another than the round-robin successor when the running thread blocks) and every non-default environment answer costs 1; plain shared-memory accesses are not scheduling points at this level (atomics, locks, channel operations, syscall waits are); only the epoll loop goroutine body is replaced (a scheduler thread per process that calls the real epoll_wait, handleEvent and runLambda); SC interleavings"
C["C20"] = dict(
    text="7 scenarios (2-3 messages through shared memory and socket fallback into a stream whose callbacks are installed in OnNewStream; OnData consuming all / 3 bytes per call / closing the stream; peer close after the last flush; local Close from another thread at any point): every schedule of client, both event loops, send loop and the callback goroutines with <= 2 (quick) / <= 3 (thorough) deviations; oracles: OnData never re-entered, consumed bytes are a prefix of the flushed bytes, and at quiescence with no close observed everything flushed was offered",
    note=NOTE_B, technique=TECH_B, design="DESIGN.md section 4 C20")
C["C10"] = dict(
    text="7 scenarios on a real pair (close from a plain goroutine; both ends at once; Close repeated concurrently on one end; server closes and the client waits for the end; server in callback mode with client close, with a local Close from another goroutine, with Close from inside OnData): every schedule with <= 2 (quick) / <= 3 (thorough) deviations; oracles: state word only moves forward (checked at every atomic operation on it), after a local Close Flush-with-data fails with ErrStreamClosed, reads fail with a closed-stream error, the stream is not active; the peer drains what was flushed before the close, then reads ErrEndOfStream (within 5 virtual seconds) and its Flush fails; exactly one of OnLocalClose/OnRemoteClose per stream end",
    note=NOTE_B, technique=TECH_B, design="DESIGN.md section 4 C10")
C["C07"] = dict(
    text="7 scenarios on a real pair: one stream shm+shm+close, shm+fallback+sticky-fallback+close, fallback+close, two concurrent streams with mixed transports, request/response, and callback-mode readers (data then close; two streams): keyed payloads (byte i of stream k is a function of (k,i)); every schedule with <= 2/1 (quick) / <= 3/2 (thorough) deviations; oracles: each reader receives only its own stream's bytes in flush order and is told the stream ended only after every byte flushed before the close was offered",
    note=NOTE_B + "; the callback-mode data-then-close defect D10 is a recorded known finding", technique=TECH_B, design="DESIGN.md section 4 C07")
C["C09"] = dict(
    text="10 histories on a real pair, every schedule with <= 2 (quick) / <= 3 (thorough) deviations: partial read then close; close racing with arriving data; flush after the peer closed; pinned and peeked data never released; socket fallback mixed with shared memory; queue-full retries with two streams on a 1-element queue; read buffer reused as write buffer in both directions; a response arriving after the client closed the stream; callback mode with partial consumption and peer close; Close inside OnData. Each execution is completed by closing every stream on both ends (including streams only implicitly accepted) and run to quiescence; oracle: free count == capacity in every class and GetMetrics().AllInUsedShareMemoryInBytes == 0",
    note=NOTE_B, technique=TECH_B, design="DESIGN.md section 4 C09")
C["C11"] = dict(
    text="10 scenarios on a real pair under VIRTUAL time with racy timers (an armed timer may fire as a costed alternative at any step): ReadBytes released by data in two messages, by a read deadline racing with the arrival, by a local Close, by the peer's close, by Session.Close, by the death of the peer process; Flush into a 1-element queue whose consumer stopped (plain, with a write deadline); AcceptStream released by Session.Close; fallback Flush racing with Session.Close; every schedule with <= 2 (quick) / <= 3 (thorough) deviations; oracles: every call returns (a call that does not return is a deadlock / horizon failure of the execution), ErrTimeout never before the virtual deadline, the right error class per releasing event, completion within the code's own time bound",
    note=NOTE_B + "; time is virtual: real-time bounds are not checked; a Stream.Close concurrent with a Flush of the same stream is outside C11 (see DESIGN.md section 9)", technique=TECH_B, design="DESIGN.md section 4 C11")
C["C14"] = dict(
    text="12 scenarios on a real pair (echo workload in synchronous and callback mode, OpenStream bursts, GetMetrics, a Flush waiting on a full queue of a stalled peer) racing with Session.Close (client, server, both, twice/concurrently) or with the death of the peer process (all its threads stop, its descriptors close) injected at ANY scheduling point; memfd and /dev/shm-file mappings; every schedule with <= 2/1 (quick) / <= 3/2 (thorough) deviations; oracles: no panic, no access to memory the code already unmapped (PROT_NONE + SetPanicOnFault), no deadlock or horizon, survivor closed, reads return within 20 virtual seconds, later calls fail, one close callback per stream, Close idempotent; after both ends closed and quiescence: buffer-manager table empty, queue mappings gone, no descriptor beyond the baseline, no /dev/shm file",
    note=NOTE_B + "; peer death is emulated inside one OS process (threads stopped for good + descriptors closed), so kernel-side effects of a real SIGKILL other than the hang-up are not modelled; use-after-unmap by in-flight user goroutines (D9) is a recorded known finding", technique=TECH_B, design="DESIGN.md section 4 C14")
C["C15"] = dict(
    text="real SessionManager pool code (GetStream/PutBack, getOrOpenStream/putOrCloseStream/push/pop) on a real pair with an echoing callback server: (a) every history up to depth 5 (quick) / 6 (thorough) over {GetStream by caller a/b, full use, write without reading, read, PutBack a/b, peer closes the stream, late response on a pooled stream, write that goes by socket fallback, session lost} for pool capacities 1 and 2, each operation run to quiescence, plus longer two-caller histories around the capacity; (b) two concurrent callers doing two Get/use/PutBack rounds, with and without a peer closing streams, every schedule with <= 1 (quick) / <= 2 (thorough) deviations; oracles at every hand-out: open, live session, no buffered or pending byte of an earlier use, not held by the other caller; at the end active streams == held + pooled",
    note=NOTE_B + "; histories run on the default schedule (0 deviations)", technique=TECH_B + " + bounded-exhaustive operation histories", design="DESIGN.md section 4 C15")
C["C12"] = dict(
    text="the real newSession on both ends of a real connection under the scheduler with virtual time (handshake not in the quiet phase). Success pairings unix+memfd (protocol 3), unix+file (protocol 2 initializer), tcp+file; tcp+memfd must be refused on both ends: both ends return nil, agree on the expected version, share one memory (queue elements cross over through the two separate queue mappings in both directions; a 40-byte message and a 7-byte answer travel through the buffers without socket fallback; each process keeps its own buffer-manager table, so the server really maps the memory a second time) and release everything on Close. Failure enumeration: for mapping in {memfd,file} x dying role in {client,server} x {falls silent, descriptors closed} the peer process stops at ANY scheduling point of the exchange (the fault is one deviation; <= 1 (quick) / <= 2 (thorough) deviations in total); oracles: the survivor's newSession returns no later than the virtual initialization timeout (+50 ms), nothing panics, and nothing that is not the dead process's own is left: per-process buffer-manager table empty, no descriptor (ownership tracked at memfd_create / SCM_RIGHTS / dup), no /dev/shm file of a surviving client",
    note=NOTE_B + "; byte-level cuts inside one message are not produced (a process stops between syscalls, and the handshake messages are written by single write calls); version negotiation is exercised only for the versions this code base speaks (2 via the file initializer, 3 via the exchange); the leaked duplicate of the connection on a failed handshake (D17) is a recorded known finding",
    technique=TECH_B + " with the peer-death fault schedulable at every point", design="DESIGN.md section 4 C12")
NA = {}
m = {
    "version": 1,
    "setup_cmd": "./check --setup",
    "hooks": {"guard": "verif",
              "enable": "no hook is committed to /repo: ./check copies the current non-test *.go files of /repo into a scratch directory, rewrites them with bin/instr (sync, sync/atomic, time, go statements, channel operations, shared-memory dereferences -> internal/vrt) and builds them with -tags verif together with the harness files",
              "baseline_off_cmd": "cd /repo && go test -vet=off -count=1 -timeout 25m ./...",
              "source_commits": [], "add_only": True},
    "engines": [{"name": "vrt+instr", "path": "engine/", "serves_properties": sorted(C),
                 "kind_free_text": "hand-written stateless model checker for Go: AST instrumenter + cooperative scheduler + DFS explorer with deviation bound and state-key pruning, run on the real implementation"}],
    "checks": [], "not_applicable": [], "notes": "see DESIGN.md; known findings in known_findings.json",
}
for pid in ids:
    if pid in C:
        c = C[pid]
        m["checks"].append({
            "property_id": pid, "quick_cmd": "./check %s --tier quick" % pid, "thorough_cmd": "./check %s --tier thorough" % pid,
            "evidence_file": "evidence/%s.json" % pid, "replay_cmd_template": "./check %s --replay {path}" % pid, "engine": "vrt+instr",
            "level_claimed": {"category": c.get("level", "model_checking"), "text": c["text"], "design_ref": c["design"]},
            "level_note": c["note"], "technique": c["technique"]})
    else:
        m["not_applicable"].append({"property_id": pid, "reason": NA.get(pid, "check not built yet (work in progress; see DESIGN.md section 8)")})
json.dump(m, open("/verif/MANIFEST.json", "w"), indent=1)
print("claimed:", sorted(C))
