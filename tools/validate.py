#!/opt/veriftools/pyvenv/bin/python
import json,jsonschema,sys,glob
jsonschema.validate(json.load(open('/verif/MANIFEST.json')),json.load(open('/root/.vp/MANIFEST.schema.json')))
s=json.load(open('/root/.vp/EVIDENCE.schema.json'))
for f in sorted(glob.glob('/verif/evidence/*.json')):
    jsonschema.validate(json.load(open(f)),s)
    print('ok',f)
m=json.load(open('/verif/MANIFEST.json'))
ids={c['property_id'] for c in m['checks']}|{c['property_id'] for c in m.get('not_applicable',[])}
assert ids=={"C%02d"%i for i in range(1,21)}, ids
print('manifest valid')
