#!/bin/bash
# usage: with_patch.sh <patch> <command...> : apply patch to /repo, run the command, always undo
P=$1; shift
cd /repo && git apply "$P" || { echo "patch does not apply"; exit 3; }
( cd /verif && "$@" ); rc=$?
cd /repo && git checkout -- . && git clean -fdq
exit $rc
