#!/bin/bash
# usage: tools/run_seed.sh <seeded-dir-name> <property> [tier] [extra check args...]
# runs a check against a scratch copy of /repo's HEAD with the seeded patch applied (never touches /repo)
S=$1; P=$2; T=${3:-quick}; shift 3 2>/dev/null
D=$(mktemp -d /tmp/seedrun-XXXXXX)
git -C /repo archive HEAD | tar -x -C $D
( cd $D && patch -p1 -s < /verif/seeded/$S/patch.diff ) || { echo "patch does not apply"; rm -rf $D; exit 3; }
cd /verif && VERIF_REPO=$D ./check $P --tier $T "$@"; rc=$?
rm -rf $D
exit $rc
