#!/bin/bash
# runs every quick check once, in order, against /repo (writes evidence/<id>.json); prints one line per check
cd /verif
for id in C01 C02 C03 C04 C05 C06 C07 C08 C09 C10 C11 C12 C13 C14 C15 C16 C17 C18 C19 C20; do
  s=$(date +%s)
  out=$(./check $id --tier quick 2>&1); rc=$?
  echo "$id exit=$rc wall=$(( $(date +%s)-s ))s $(echo "$out" | grep '^check ' | sed 's/^check [A-Z0-9]* //')"
  echo "$out" | grep -E "VIOLATION|HARNESS|UNREPRO" | head -3
done
