#!/usr/bin/env python3
"""Runs the repository's own (unedited) test suite on a scratch copy of /repo's HEAD + each seeded patch, one at a time,
under the machine-wide flock, and records the result in seeded/<id>/meta.json. Run it when nothing else is using the CPU:
the suite has 1-second handshake timeouts."""
import glob, json, os, shutil, subprocess, sys, tempfile
ENV = dict(os.environ, GOFLAGS="-mod=mod", GOPROXY="off", GOSUMDB="off", GOTOOLCHAIN="local")
only = sys.argv[1:]  # directory names under seeded/ (e.g. C08 C11-r2)
for d in sorted(glob.glob("/verif/seeded/C*")):
    sid = os.path.basename(d)
    if only and sid not in only:
        continue
    mp = os.path.join(d, "meta.json")
    if not os.path.exists(mp) or not os.path.exists(os.path.join(d, "patch.diff")):
        continue
    meta = json.load(open(mp))
    if meta.get("suite_passes_with_change") is True and not only:
        continue
    w = tempfile.mkdtemp(prefix="suitechk-")
    subprocess.run("git -C /repo archive HEAD | tar -x -C %s && cd %s && patch -p1 -s < %s/patch.diff" % (w, w, d), shell=True, check=True)
    ok, tail = False, ""
    for attempt in range(3):
        r = subprocess.run("flock /tmp/shmipc-suite.lock go test -vet=off -count=1 -timeout 10m . 2>&1 | tail -3", shell=True, cwd=w, env=ENV, stdout=subprocess.PIPE, text=True)
        tail = r.stdout[-300:]
        if "\nok" in "\n" + tail or tail.startswith("ok"):
            ok = True
            break
    shutil.rmtree(w, ignore_errors=True)
    meta["suite_passes_with_change"] = ok
    meta["suite_tail"] = tail
    meta.setdefault("what_was_run", []).append("repository suite (unedited) on HEAD + patch, alone, under flock: %s (attempt %d)" % ("pass" if ok else "FAIL", attempt + 1))
    if ok and meta.get("verdict", "").startswith(("not confirmed", "rejected: the repository")):
        if meta.get("builds_with_change") and str(meta.get("demo_fails_with_change", "0"))[0] in "123" and str(meta.get("demo_passes_without_change", "0"))[0] == "2":
            meta["verdict"] = "kept"
    if not ok:
        meta["verdict"] = "rejected: the repository's suite does not pass with the change"
    json.dump(meta, open(mp, "w"), indent=1)
    print(sid, "suite:", "pass" if ok else "FAIL", tail.strip().splitlines()[-1] if tail.strip() else "")
