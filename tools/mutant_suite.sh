#!/bin/bash
# For every patch given (default: all of /verif/mutants): apply it to a scratch copy of /repo and run the repository's
# own test suite there. Records "<patch> PASS|FAIL|NOAPPLY" in /verif/mutants/STATUS.txt (a mutant is only meaningful if PASS).
source /verif/env.sh
cd /verif
PATCHES="$@"; [ -z "$PATCHES" ] && PATCHES=$(ls mutants/*.patch)
for p in $PATCHES; do
  n=$(basename $p .patch)
  grep -q "^$n " mutants/STATUS.txt 2>/dev/null && continue
  d=$(mktemp -d /tmp/mt-XXXXXX)
  git -C /repo archive HEAD | tar -x -C $d
  if ! (cd $d && patch -p1 -s < /verif/$p); then echo "$n NOAPPLY" >> mutants/STATUS.txt; rm -rf $d; continue; fi
  if (cd $d && go build ./... && go test -vet=off -count=1 -timeout 5m ./... > $d/test.log 2>&1); then r=PASS; else r="FAIL $(grep -E '^(--- FAIL|FAIL|panic)' $d/test.log | head -3 | tr '\n' ' ')"; fi
  echo "$n $r" >> mutants/STATUS.txt
  rm -rf $d
done
sort -o mutants/STATUS.txt mutants/STATUS.txt
