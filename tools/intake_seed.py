#!/usr/bin/env python3
"""Intake of a seeded change written by a sub-agent in /tmp/wt-<ID>.

  tools/intake_seed.py <ID> [--name <suffix>] [--props C07,C10] [--tier quick]

1. extracts the uncommitted source change (non-test files) as patch.diff, copies the demonstration and SEED.md;
2. confirms independently, in a scratch copy of /repo's HEAD: it builds; the repository's own suite passes with the
   change (under the machine-wide flock); the demonstration FAILS with the change and PASSES without it;
3. runs the check(s) of the property against /repo with the patch applied (and undoes it straight afterwards);
4. writes seeded/<ID>[-suffix]/meta.json.
"""
import argparse, json, os, re, shutil, subprocess, sys, tempfile, time

ENV = dict(os.environ, GOFLAGS="-mod=mod", GOPROXY="off", GOSUMDB="off", GOTOOLCHAIN="local")


def sh(cmd, cwd=None, timeout=1800):
    r = subprocess.run(cmd, shell=True, executable="/bin/bash", cwd=cwd, env=ENV, stdout=subprocess.PIPE, stderr=subprocess.STDOUT, text=True, timeout=timeout)
    return r.returncode, r.stdout


def main():
    ap = argparse.ArgumentParser()
    ap.add_argument("id")
    ap.add_argument("--name", default="")
    ap.add_argument("--props", default="")
    ap.add_argument("--tier", default="quick")
    ap.add_argument("--skip-suite", action="store_true")
    ap.add_argument("--wt", default="")
    ap.add_argument("--recheck", action="store_true", help="only re-run the checks against HEAD + the stored patch and record the result under checks_now")
    a = ap.parse_args()
    if a.recheck:
        dest = "/verif/seeded/" + a.id + (("-" + a.name) if a.name else "")
        meta = json.load(open(os.path.join(dest, "meta.json")))
        d = tempfile.mkdtemp(prefix="seedchk-")
        sh("git -C /repo archive HEAD | tar -x -C " + d)
        rc, out = sh("patch -p1 -s < %s/patch.diff" % dest, cwd=d)
        meta.setdefault("checks_now", {})
        for pid in [p for p in (a.props.split(",") if a.props else [a.id]) if p]:
            t0 = time.time()
            rc, out = sh("VERIF_REPO=%s ./check %s --tier %s" % (d, pid, a.tier), cwd="/verif", timeout=4000)
            viol = re.findall(r"^\s+scenario=(\S+) kind=(\S+) sig=(\S+) msg=(.*)$", out, re.M)
            meta["checks_now"][pid + "/" + a.tier] = {"exit": rc, "detected": rc == 1, "wall_s": round(time.time() - t0),
                                                      "violations": [{"scenario": v[0], "sig": v[2], "msg": v[3][:300]} for v in viol[:3]],
                                                      "broken": [l[:300] for l in out.splitlines() if "BROKEN" in l or "UNREPRO" in l][:3]}
            meta.setdefault("what_was_run", []).append("after strengthening: VERIF_REPO=<scratch copy of /repo HEAD + patch> ./check %s --tier %s: exit %d" % (pid, a.tier, rc))
        shutil.rmtree(d, ignore_errors=True)
        json.dump(meta, open(os.path.join(dest, "meta.json"), "w"), indent=1)
        print(json.dumps(meta["checks_now"], indent=1))
        return 0
    wt = a.wt or ("/tmp/wt-" + a.id)
    dest = "/verif/seeded/" + a.id + (("-" + a.name) if a.name else "")
    os.makedirs(dest, exist_ok=True)
    # 1. extract
    rc, names = sh("git status --porcelain", cwd=wt)
    changed, new = [], []
    for line in names.splitlines():
        st, f = line[:2], line[3:].strip()
        if st.strip() == "??":
            new.append(f)
        else:
            changed.append(f)
    src = [f for f in changed if f.endswith(".go") and not f.endswith("_test.go")]
    rc, diff = sh("git diff -- " + " ".join(src), cwd=wt)
    open(os.path.join(dest, "patch.diff"), "w").write(diff)
    demos = [f for f in new if f.endswith("_test.go") or f.startswith("demo")]
    for f in new:
        s = os.path.join(wt, f)
        if os.path.isdir(s):
            shutil.copytree(s, os.path.join(dest, os.path.basename(f.rstrip("/"))), dirs_exist_ok=True)
        elif os.path.isfile(s):
            shutil.copy(s, dest)
    meta = {"seed_id": os.path.basename(dest), "written_for_property": a.id, "source_files_changed": src, "demo_files": demos,
            "changed_lines": sum(1 for l in diff.splitlines() if (l.startswith("+") or l.startswith("-")) and not l.startswith(("+++", "---")))}
    if not diff.strip():
        meta["verdict"] = "rejected: no source change found"
        json.dump(meta, open(os.path.join(dest, "meta.json"), "w"), indent=1)
        print(json.dumps(meta, indent=1))
        return 1
    # 2. independent confirmation in scratch copies of /repo HEAD
    def scratch(with_patch):
        d = tempfile.mkdtemp(prefix="seedchk-")
        sh("git -C /repo archive HEAD | tar -x -C " + d)
        if with_patch:
            rc, out = sh("patch -p1 -s < %s/patch.diff" % dest, cwd=d)
            if rc != 0:
                return d, "patch does not apply: " + out
        for f in demos:
            s = os.path.join(wt, f)
            if os.path.isdir(s):
                shutil.copytree(s, os.path.join(d, f), dirs_exist_ok=True)
            else:
                shutil.copy(s, os.path.join(d, f))
        return d, ""
    dw, err = scratch(True)
    ran = []
    try:
        if err:
            meta["verdict"] = "rejected: " + err
        else:
            rc, out = sh("go build ./... && go vet -vettool=/bin/true . >/dev/null 2>&1; go test -vet=off -count=1 -run '^$' . ", cwd=dw)
            meta["builds_with_change"] = rc == 0
            demo_run = "go test -vet=off -count=1 -timeout 5m -run 'Seed|seed|ZZ' . 2>&1 | tail -25"
            if any(f.startswith("demo") for f in demos):
                demo_run = "go run ./demo 2>&1 | tail -25"
            fails = 0
            outs = []
            for i in range(3):
                rc, out = sh(demo_run + "; exit ${PIPESTATUS[0]}", cwd=dw)
                outs.append(out[-600:])
                if rc != 0 or "FAIL" in out or "panic:" in out:
                    fails += 1
            meta["demo_fails_with_change"] = "%d of 3 runs" % fails
            meta["demo_output_with_change"] = outs[0][-800:]
            ran.append("demo with change x3: %d failures" % fails)
            dn, _ = scratch(False)
            passes = 0
            for i in range(2):
                rc, out = sh(demo_run + "; exit ${PIPESTATUS[0]}", cwd=dn)
                if rc == 0 and "FAIL" not in out and "panic:" not in out:
                    passes += 1
            meta["demo_passes_without_change"] = "%d of 2 runs" % passes
            meta["demo_output_without_change"] = out[-400:]
            ran.append("demo without change x2: %d passes" % passes)
            shutil.rmtree(dn, ignore_errors=True)
            if not a.skip_suite:
                # the repository's own suite, WITHOUT the demo file, under the machine-wide lock
                for f in demos:
                    p = os.path.join(dw, f)
                    if os.path.isfile(p):
                        os.remove(p)
                    elif os.path.isdir(p):
                        shutil.rmtree(p)
                ok = 0
                for i in range(2):
                    rc, out = sh("flock /tmp/shmipc-suite.lock go test -vet=off -count=1 -timeout 10m . 2>&1 | tail -4; exit ${PIPESTATUS[0]}", cwd=dw, timeout=3000)
                    if rc == 0 and "ok" in out:
                        ok += 1
                        break
                meta["suite_passes_with_change"] = ok > 0
                meta["suite_tail"] = out[-300:]
                ran.append("repository suite with change: %s" % ("pass" if ok else "FAIL"))
    finally:
        shutil.rmtree(dw, ignore_errors=True)
    # 3. my checks against /repo + patch
    props = [p for p in (a.props.split(",") if a.props else [a.id]) if p]
    meta["checks"] = {}
    if "verdict" not in meta:
        # the checks run against a scratch copy of /repo's HEAD with the patch applied (VERIF_REPO), not against /repo
        # itself: background thorough runs rebuild from /repo and must not see a half-applied seed
        dchk, _ = scratch(True)
        for f in demos:
            pth = os.path.join(dchk, f)
            if os.path.isfile(pth):
                os.remove(pth)
            elif os.path.isdir(pth):
                shutil.rmtree(pth)
        for pid in props:
            t0 = time.time()
            rc, out = sh("VERIF_REPO=%s ./check %s --tier %s" % (dchk, pid, a.tier), cwd="/verif", timeout=4000)
            viol = re.findall(r"^\s+scenario=(\S+) kind=(\S+) sig=(\S+) msg=(.*)$", out, re.M)
            meta["checks"][pid + "/" + a.tier] = {"exit": rc, "detected": rc == 1, "wall_s": round(time.time() - t0),
                                                  "violations": [{"scenario": v[0], "sig": v[2], "msg": v[3][:300]} for v in viol[:3]],
                                                  "broken": [l[:300] for l in out.splitlines() if "BROKEN" in l or "UNREPRO" in l][:3]}
            ran.append("VERIF_REPO=<scratch copy of /repo HEAD + patch> ./check %s --tier %s: exit %d" % (pid, a.tier, rc))
        shutil.rmtree(dchk, ignore_errors=True)
    valid = meta.get("builds_with_change") and meta.get("demo_fails_with_change", "0").startswith(("1", "2", "3")) and meta.get("demo_passes_without_change", "0").startswith("2") and (a.skip_suite or meta.get("suite_passes_with_change"))
    meta.setdefault("verdict", "kept" if valid else "not confirmed (see fields)")
    meta["what_was_run"] = ran
    seed_md = os.path.join(wt, "SEED.md")
    if os.path.exists(seed_md):
        meta["needs_to_manifest"] = open(seed_md).read()[:1500]
    json.dump(meta, open(os.path.join(dest, "meta.json"), "w"), indent=1)
    print(json.dumps({k: v for k, v in meta.items() if k not in ("needs_to_manifest", "demo_output_with_change", "demo_output_without_change")}, indent=1))
    return 0


if __name__ == "__main__":
    sys.exit(main())
