#!/bin/bash
# Detection demo: applies every patch of /verif/mutants (or the ones given) to a scratch copy of /repo's HEAD and runs
# the quick check of the property named by the patch's prefix against that copy. Writes mutants/RESULTS.txt.
# usage: tools/selftest.sh [tier] [patch...]
cd /verif
TIER=${1:-quick}; shift
PATCHES="$@"; [ -z "$PATCHES" ] && PATCHES=$(ls mutants/*.patch)
SRC=${VP_RUN_REPO:-/repo}
OUT=/verif/mutants/RESULTS.$TIER.txt
[ -n "$VP_RUN_REPO" ] && OUT=$(pwd)/mutants/RESULTS.$TIER.txt
: > $OUT.tmp
for p in $PATCHES; do
  n=$(basename $p .patch); prop=${n%%-*}
  d=$(mktemp -d /tmp/st-XXXXXX)
  git -C $SRC archive HEAD | tar -x -C $d
  if ! (cd $d && patch -p1 -s < /verif/$p >/dev/null 2>&1 || patch -p1 -s < $(pwd)/$p >/dev/null 2>&1); then echo "$n NOAPPLY" >> $OUT.tmp; rm -rf $d; continue; fi
  s=$(date +%s)
  out=$(VERIF_REPO=$d ./check $prop --tier $TIER 2>&1)
  rc=$?
  e=$(( $(date +%s) - s ))
  sig=$(echo "$out" | grep -A1 '^VIOLATION' | grep 'sig=' | head -1 | sed 's/.*sig=\([^ ]*\).*/\1/')
  if [ $rc = 1 ]; then echo "$n DETECTED by $prop/$TIER sig=$sig ${e}s" >> $OUT.tmp; elif [ $rc = 0 ]; then echo "$n MISSED by $prop/$TIER ${e}s" >> $OUT.tmp; else echo "$n BROKEN rc=$rc $(echo "$out" | grep BROKEN | head -1 | cut -c1-120) ${e}s" >> $OUT.tmp; fi
  rm -rf $d
done
mv $OUT.tmp $OUT
cat $OUT
