export GOFLAGS=-mod=mod GOPROXY=off GOSUMDB=off GOTOOLCHAIN=local
